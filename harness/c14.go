package main

// C14 — Shared policies and executors are safe for concurrent use (SX in the race build).
// The oracle is the Go race detector, kept sighted by the invisible baton hand-off (DESIGN.md
// §3.5), plus panics and deadlocks, evaluated on every explored schedule.

import (
	"context"
	"errors"
	"fmt"
	"time"

	"github.com/failsafe-go/failsafe-go"
	"github.com/failsafe-go/failsafe-go/timeout"

	"github.com/failsafe-go/failsafe-go/verifrt/vcontext"
	"github.com/failsafe-go/failsafe-go/verifrt/vrt"
)

func c14Configs() []Spec {
	return []Spec{
		{Kind: KRetry, MaxRetries: 1, Delay: 5},
		{Kind: KBreaker, FT: 2, FC: 3, ST: 1, SC: 2, BDelay: 20},
		{Kind: KLimiter, Permits: 2, Period: 50, LWait: 60},
		{Kind: KBulkhead, Conc: 1, BWait: 15},
		{Kind: KTimeout, Limit: 15},
		{Kind: KHedge, MaxHedges: 1, HDelay: 8},
		{Kind: KFallback, FbV: 9},
		{Kind: KCache, Key: "a"},
	}
}

func c14Scenarios(tier string) []*Scenario {
	bound := 1
	if tier == "thorough" {
		bound = 2
	}
	var out []*Scenario
	final := func(env *Env) string {
		for _, x := range env.Exes {
			if !x.Completed {
				return fmt.Sprintf("execution %d did not complete", x.ID)
			}
		}
		// each execution still gets what the policies promise. An outermost timeout reports ErrExceeded
		// exactly for the executions whose timeout it declared exceeded:
		if env.Stack[0].Kind == KTimeout {
			exceeded := 0
			for _, x := range env.Exes {
				if errors.Is(x.ResE, timeout.ErrExceeded) {
					exceeded++
				}
			}
			if fired := env.quietCount(0, "timeout"); fired != exceeded {
				return fmt.Sprintf("OnTimeoutExceeded fired %d times, %d executions returned ErrExceeded", fired, exceeded)
			}
		}
		// an async execution under a retry or hedge policy that was cancelled through its ExecutionResult
		// while it still had work to do reports that cancellation, not the context error it causes
		for _, x := range env.Exes {
			if x.AsyncCancel && x.CancelTick1 > 0 && !x.DoneBeforeCancel && errors.Is(x.ResE, context.Canceled) && !errors.Is(x.ResE, failsafe.ErrExecutionCanceled) {
				return fmt.Sprintf("execution %d was cancelled through ExecutionResult.Cancel and returned %v instead of ErrExecutionCanceled", x.ID, x.ResE)
			}
		}
		// a bulkhead has all its permits back once everything has finished
		for bi, s := range env.Stack {
			if s.Kind != KBulkhead {
				continue
			}
			got := 0
			for k := 0; k < int(s.Conc)+1; k++ {
				if env.Bulks[bi].TryAcquirePermit() {
					got++
				}
			}
			for k := 0; k < got; k++ {
				env.Bulks[bi].ReleasePermit()
			}
			if got != int(s.Conc) {
				return fmt.Sprintf("after all executions finished %d permits of bulkhead %d could be acquired, maxConcurrency is %d", got, bi, s.Conc)
			}
		}
		// and a shared bursty limiter never lets more through than its rate: every invocation of the
		// function went through it, so did every permit handed out by the standalone API
		for li, s := range env.Stack {
			if s.Kind != KLimiter || s.Smooth {
				continue
			}
			var at []int64
			for _, g := range env.Grants {
				if int(g[0]) == li {
					at = append(at, g[1])
				}
			}
			multiplies := false // a retry or hedge inside the limiter makes several invocations under one permit
			for _, in := range env.Stack[li+1:] {
				multiplies = multiplies || in.Kind == KRetry || in.Kind == KHedge
			}
			for _, x := range env.Exes {
				for k, inv := range x.Invs {
					if k == 0 || !multiplies {
						at = append(at, inv.Start)
					}
				}
			}
			for _, T := range at {
				n := 0
				for _, u := range at {
					if u <= T {
						n++
					}
				}
				if limit := int(s.Permits) * int(T/int64(s.Period)+1); n > limit {
					return fmt.Sprintf("%d permits were usable by t=%d, the limiter allows %d per %v (%d by then)", n, T, s.Permits, s.Period, limit)
				}
			}
		}
		return ""
	}
	sharedExecutor := false
	add := func(name string, stack []Spec, exes []ExeSpec, extra ...func(env *Env)) {
		out = append(out, &Scenario{
			Name:  fmt.Sprintf("C14/%s [%s] %s", name, stackStr(stack), exesStr(exes)),
			Bound: bound, Reduce: true,
			Body: multiBody(stack, exes, MultiOpts{Reduce: true, Quiet: true, Grace: 100, Extra: extra, Final: final, SharedExecutor: sharedExecutor}),
		})
	}
	slowFail := []Out{{Err: E1, Dur: 10}, {V: 1, Dur: 10}}
	slowOK := []Out{{V: 1, Dur: 10}}
	standalone := func(env *Env) {
		for i, s := range env.Stack {
			switch s.Kind {
			case KBreaker:
				cb := env.Breakers[i]
				if cb.TryAcquirePermit() {
					cb.RecordFailure()
				}
				_ = cb.State()
				_ = cb.Metrics().Failures()
				_ = cb.RemainingDelay()
			case KBulkhead:
				bh := env.Bulks[i]
				if bh.TryAcquirePermit() {
					vrt.Sleep(3)
					bh.ReleasePermit()
				}
			case KLimiter:
				if env.Limiters[i].TryAcquirePermit() {
					env.addGrant(i, vrt.Elapsed())
				}
				w := env.Limiters[i].ReservePermit()
				env.addGrant(i, vrt.Elapsed()+int64(w))
			}
		}
	}
	cfgs := c14Configs()
	// every policy alone and every ordered pair: one sync and one async execution plus a standalone caller
	for _, a := range cfgs {
		add("single", []Spec{a}, []ExeSpec{{Script: slowFail}, {Script: slowOK, Async: true}}, standalone)
		for _, b := range cfgs {
			if a.Kind == KHedge && b.Kind == KHedge && tier != "thorough" {
				continue // a hedge inside a hedge with a second execution: tens of thousands of schedules, thorough tier only
			}
			add("pair", []Spec{a, b}, []ExeSpec{{Script: slowFail}, {Script: slowOK, Async: true, StartAt: 2}}, standalone)
		}
	}
	// executions classifying joined and wrapped errors through the same conditions at the same time
	{
		joined := []Out{{Err: errors.Join(E2, ValErr{1}), Dur: 2}, {Err: fmt.Errorf("w: %w", errors.Join(E3, &PtrErr{2})), Dur: 2}}
		h := []Cond{{K: "types", T: ValErr{}, Ts: []any{&PtrErr{}}}, {K: "errs", E: E1, Es: []error{E4}}}
		add("shared-conditions", []Spec{{Kind: KRetry, MaxRetries: 1, Handle: h, Abort: []Cond{{K: "types", T: OtherErr{}}}}}, []ExeSpec{{Script: joined}, {Script: joined, Async: true}})
		add("shared-conditions", []Spec{{Kind: KFallback, FbV: 9, Handle: h}}, []ExeSpec{{Script: joined[:1]}, {Script: joined[1:2], Async: true}})
		add("shared-conditions", []Spec{{Kind: KBreaker, FT: 5, FC: 5, BDelay: 20, Handle: h}}, []ExeSpec{{Script: joined[:1]}, {Script: joined[1:2]}})
	}
	// randomised delays computed by overlapping executions through one policy
	add("jitter", []Spec{{Kind: KRetry, MaxRetries: 1, Delay: 6, Jitter: 2}}, []ExeSpec{{Script: slowFail}, {Script: slowFail, Async: true}})
	add("random-delay", []Spec{{Kind: KRetry, MaxRetries: 1, DelayMin: 2, DelayMax: 6}}, []ExeSpec{{Script: slowFail}, {Script: slowFail, StartAt: 2}})
	// the same Executor value (not only the same policies) used by overlapping executions
	sharedExecutor = true
	for _, a := range cfgs {
		add("one-executor", []Spec{a}, []ExeSpec{{Script: slowFail}, {Script: slowFail, StartAt: 2}, {Script: slowOK, Async: true, StartAt: 4}})
	}
	add("one-executor", []Spec{cfgs[0], cfgs[4]}, []ExeSpec{{Script: slowFail}, {Script: slowFail, Async: true, StartAt: 2}})
	sharedExecutor = false
	// one execution in which the library itself is concurrent: hedge over each policy, timeout firing during each policy
	for _, b := range cfgs {
		add("hedge-over", []Spec{{Kind: KHedge, MaxHedges: 2, HDelay: 5, Cancel: []Cond{{K: "result", V: 1}}}, b}, []ExeSpec{{Script: []Out{{Err: E1, Dur: 12}, {Err: E1, Dur: 12}, {V: 1, Dur: 3}}}})
		add("timeout-over", []Spec{{Kind: KTimeout, Limit: 10}, b}, []ExeSpec{{Script: []Out{{Err: E1, Dur: 10}, {V: 1, Dur: 10, Coop: true}}}})
	}
	// hedge attempts that finish at the same instant inside each failure-handling policy (they share
	// the policy executor of the execution)
	for _, b := range []Spec{cfgs[0], cfgs[1], cfgs[6]} {
		add("hedge-over-same-instant", []Spec{{Kind: KHedge, MaxHedges: 1, HDelay: 8, Cancel: []Cond{{K: "result", V: 1}}}, b}, []ExeSpec{{Script: []Out{{Err: E1, Dur: 10}, {Err: E1, Dur: 2}}}})
	}
	// async runner + Cancel + readers
	add("async-cancel", []Spec{{Kind: KRetry, MaxRetries: 2, Delay: 5}}, []ExeSpec{{Script: []Out{{Err: E1, Dur: 5, Coop: true}}, Async: true, CancelAsync: true, CancelAt: 10}})
	add("async-cancel-nodelay", []Spec{{Kind: KRetry, MaxRetries: 3}}, []ExeSpec{{Script: []Out{{Err: E1, Dur: 5, Coop: true}}, Async: true, CancelAsync: true, CancelAt: 5}})
	add("async-cancel-timeout", []Spec{{Kind: KRetry, MaxRetries: 2, Delay: 5}, {Kind: KTimeout, Limit: 50}}, []ExeSpec{{Script: []Out{{Err: E1, Dur: 5, Coop: true}}, Async: true, CancelAsync: true, CancelAt: 10}})
	add("async-cancel-hedge", []Spec{{Kind: KHedge, MaxHedges: 1, HDelay: 5}}, []ExeSpec{{Script: []Out{{Err: E1, Block: true}}, Async: true, CancelAsync: true, CancelAt: 7}})
	// a time-windowed breaker: two threads read its metrics at the instant a window slice expires
	{
		tb := Spec{Kind: KBreaker, FT: 3, FC: 3, FPeriod: 100, BDelay: 20}
		reader := func(at int64) func(env *Env) {
			return func(env *Env) {
				vrt.Sleep(at)
				cb := env.Breakers[0]
				m := cb.Metrics()
				_, _, _, _, _ = m.Failures(), m.Executions(), m.Successes(), m.FailureRate(), m.SuccessRate()
				_, _ = cb.State(), cb.RemainingDelay()
			}
		}
		for _, at := range []int64{25, 110, 125} {
			add("timed-breaker-readers", []Spec{tb}, []ExeSpec{{Script: slowFail}, {Script: slowOK, StartAt: 12}}, reader(at), reader(at))
		}
	}
	// a waiter on a full bulkhead whose context is cancelled at the very instant the holder releases
	for _, w := range []time.Duration{15, 40} {
		add("bulkhead-cancel-waiter", []Spec{{Kind: KBulkhead, Conc: 1, BWait: w}}, []ExeSpec{{Script: slowOK}, {Script: slowOK, StartAt: 1, Ctx: "cancel", CancelAt: 10}, {Script: slowOK, StartAt: 2, Async: true}})
	}
	add("ctx-cancel-pair", []Spec{{Kind: KRetry, MaxRetries: 2, Delay: 5}, {Kind: KTimeout, Limit: 20}}, []ExeSpec{{Script: []Out{{Err: E1, Dur: 5, Coop: true}}, Ctx: "cancel", CancelAt: 12}, {Script: slowOK, Async: true}})
	return out
}

func init() {
	scenarioSets["C14"] = c14Scenarios
	register(&CheckDef{
		Property:  "C14",
		Race:      true,
		Technique: "stateless schedule exploration of the instrumented library in a race-detector build whose baton hand-offs are invisible to the detector: every explored schedule is judged by happens-before, not by the failure manifesting",
		Rule: "harness family: every policy alone and every ordered pair of the eight policies (72 stacks) with a sync and an async execution plus a standalone API caller on the shared instances; each policy with three overlapping executions through one Executor value; hedge over each policy and timeout firing during each policy (the library's own goroutines); " +
			"async runner + Cancel; every schedule within deviation bound 1 (thorough 2); a schedule fails on a race report, panic, deadlock, an execution that does not complete, an outermost timeout whose OnTimeoutExceeded count differs from the executions that returned ErrExceeded, a bulkhead that does not have all its permits back at the end, an async execution under retry/hedge cancelled through its ExecutionResult that reports the bare context error, or a shared bursty limiter letting more invocations and standalone permits through than its rate; distinct = distinct observation logs",
		Assume: []string{"the race detector reports each pair of access sites once per process, so a race is attributed to the first schedule that exposes it", "the harness shares no memory between its threads except through //go:norace helpers",
			"sequentially consistent interleavings; weak-memory reorderings of racy code are not explored"},
		Budget: map[string]time.Duration{"quick": 150 * time.Second, "thorough": 25 * time.Minute},
		Units: func(tier string) []Unit {
			var us []Unit
			for _, sc := range c14Scenarios(tier) {
				us = append(us, scenarioUnit(sc))
			}
			return us
		},
	})
}

var _ = context.Background
var _ = vcontext.WithCancel
var _ = time.Second
