package main

// C05 — Rate limiter never admits faster than configured; refusals cost nothing (BX + SX).

import (
	"context"
	"errors"
	"fmt"
	"sort"
	"strconv"
	"strings"
	"time"

	"github.com/failsafe-go/failsafe-go"
	"github.com/failsafe-go/failsafe-go/ratelimiter"
	"github.com/failsafe-go/failsafe-go/verifrt/vcontext"
	"github.com/failsafe-go/failsafe-go/verifrt/vrt"
	"github.com/failsafe-go/failsafe-go/verifrt/vsync"
)

// rlModel is the reference: permits are handed out in request order, each at the earliest
// instant that keeps at most one usable permit per interval slot (smooth) or at most n per
// aligned period (bursty). All instants are relative to the limiter's creation.
type rlModel struct {
	smooth bool
	I      int64 // smooth: slot length; bursty: period length
	n      int64 // bursty: permits per period
	// next unit that can still take a permit, and how many it already holds (bursty)
	unit int64
	used int64
	// every granted permit's usable instant (for the invariant)
	granted []int64
}

// request returns the wait for k permits requested at instant t (without committing), and commit.
func (m *rlModel) request(t int64, k int64) (wait int64, commit func()) {
	unit, used := m.unit, m.used
	if cur := t / m.I; cur > unit {
		unit, used = cur, 0
	}
	capacity := int64(1)
	if !m.smooth {
		capacity = m.n
	}
	var instants []int64
	for i := int64(0); i < k; i++ {
		if used >= capacity {
			unit, used = unit+1, 0
		}
		at := unit * m.I
		if at < t {
			at = t
		}
		instants = append(instants, at)
		used++
	}
	last := t
	if len(instants) > 0 {
		last = instants[len(instants)-1]
	}
	return last - t, func() {
		m.unit, m.used = unit, used
		m.granted = append(m.granted, instants...)
	}
}

// invariant: never more usable permits per slot / period than configured.
func (m *rlModel) invariant(usable []int64) string {
	count := map[int64]int64{}
	capacity := int64(1)
	if !m.smooth {
		capacity = m.n
	}
	for _, at := range usable {
		count[at/m.I]++
		if count[at/m.I] > capacity {
			what := "interval slot"
			if !m.smooth {
				what = "period"
			}
			return fmt.Sprintf("%d permits usable in %s %d (instants %v), the limit is %d", count[at/m.I], what, at/m.I, usable, capacity)
		}
	}
	return ""
}

type rlRun struct {
	s      Spec
	rl     ratelimiter.RateLimiter[int]
	m      *rlModel
	usable []int64 // usable instants of the permits the real limiter granted
	t0     int64
}

func newRLRun(s Spec) *rlRun {
	r := &rlRun{s: s}
	env := &Env{Limiters: map[int]ratelimiter.RateLimiter[int]{}}
	env.Quiet = true
	env.build(0, s)
	r.rl = env.Limiters[0]
	r.t0 = vrt.Elapsed()
	if s.Smooth {
		r.m = &rlModel{smooth: true, I: int64(s.Interval)}
	} else {
		r.m = &rlModel{I: int64(s.Period), n: int64(s.Permits)}
	}
	return r
}

func (r *rlRun) Enabled(op string) bool { return true }

func (r *rlRun) Key() string {
	return fmt.Sprintf("%s|t=%d|%d/%d", dumpState(r.rl), vrt.Elapsed(), r.m.unit, r.m.used)
}

func (r *rlRun) Probe() string { return "" }

func parseOp(op string) (name string, k int64, w int64) {
	parts := strings.Split(op, ":")
	name = parts[0]
	if len(parts) > 1 {
		k, _ = strconv.ParseInt(parts[1], 10, 64)
	}
	w = -1
	if len(parts) > 2 {
		w, _ = strconv.ParseInt(parts[2], 10, 64)
	}
	return
}

func (r *rlRun) grant(t, k, wait int64) {
	// the real answer equals the reference's (checked by the caller), so the permits' usable
	// instants are the reference's: k at once = k singles, the last one usable at t+wait
	r.usable = r.m.granted
}

func (r *rlRun) Apply(op string) string {
	m := r.m
	name, k, w := parseOp(op)
	t := vrt.Elapsed() - r.t0
	check := func(got int64, refusedGot bool, maxWait int64) string {
		wait, commit := m.request(t, k)
		refused := maxWait != -1 && wait > maxWait
		if refused != refusedGot {
			return fmt.Sprintf("%s at t=%d: refused=%v, the reference says refused=%v (wait would be %d, max wait %d)", op, t, refusedGot, refused, wait, maxWait)
		}
		if refused {
			return ""
		}
		if got != wait {
			return fmt.Sprintf("%s at t=%d: wait %d, the earliest instant respecting the rate and request order gives %d", op, t, got, wait)
		}
		commit()
		r.grant(t, k, got)
		return m.invariant(r.usable)
	}
	switch name {
	case "try": // TryAcquirePermits(k)
		ok := r.rl.TryAcquirePermits(uint(k))
		return check(0, !ok, 0)
	case "reserve": // ReservePermits(k)
		return check(int64(r.rl.ReservePermits(uint(k))), false, -1)
	case "tryreserve": // TryReservePermits(k, w)
		got := int64(r.rl.TryReservePermits(uint(k), time.Duration(w)))
		return check(got, got == -1, w)
	case "acquire": // AcquirePermitsWithMaxWait(nil, k, w): blocks for the wait
		err := r.rl.AcquirePermitsWithMaxWait(nil, uint(k), time.Duration(w))
		if err != nil && !errors.Is(err, ratelimiter.ErrExceeded) {
			return fmt.Sprintf("%s: unexpected error %v", op, err)
		}
		return check(vrt.Elapsed()-r.t0-t, err != nil, w)
	case "exec": // an execution through the policy (max wait from the configuration)
		invokedAt := int64(-1)
		_, err := failsafe.NewExecutor[int](r.rl).Get(func() (int, error) { invokedAt = vrt.Elapsed() - r.t0; return 1, nil })
		k = 1
		refused := errors.Is(err, ratelimiter.ErrExceeded)
		if refused != (invokedAt == -1) || (err != nil && !refused) {
			return fmt.Sprintf("exec at t=%d: err=%v, function invoked at %d", t, err, invokedAt)
		}
		got := int64(0)
		if !refused {
			got = invokedAt - t
		}
		return check(got, refused, int64(r.s.LWait))
	case "t+":
		vrt.Sleep(k)
	case "t->b": // to the next slot/period boundary plus k (k may be -1)
		next := (t/m.I + 1) * m.I
		if d := next + k - t; d > 0 {
			vrt.Sleep(d)
		}
	default:
		panic("unknown op " + op)
	}
	return ""
}

func c05Systems(tier string) []*BXSystem {
	var out []*BXSystem
	mk := func(s Spec, unit int64) {
		ws := []int64{0, unit - 1, unit, 3 * unit}
		ks := []int64{1, 2, 3, 5}
		if tier != "thorough" {
			ks = []int64{1, 2, 5}
			ws = []int64{0, unit, 3 * unit}
		}
		var ops []string
		for _, k := range ks {
			ops = append(ops, fmt.Sprintf("try:%d", k), fmt.Sprintf("reserve:%d", k))
			for _, w := range ws {
				ops = append(ops, fmt.Sprintf("tryreserve:%d:%d", k, w))
			}
		}
		ops = append(ops, "acquire:1:-1", fmt.Sprintf("acquire:2:%d", 3*unit), "exec")
		ops = append(ops, "t+:1", "t->b:-1", "t->b:0", "t->b:1", fmt.Sprintf("t+:%d", unit*5/2), fmt.Sprintf("t+:%d", unit*7))
		sp := s
		out = append(out, &BXSystem{Name: "C05/" + sp.String(), Ops: ops, New: func() BXRun { return newRLRun(sp) }})
	}
	for _, I := range []int64{100, 3} {
		for _, lw := range []int64{0, I} {
			mk(Spec{Kind: KLimiter, Smooth: true, Interval: time.Duration(I), LWait: time.Duration(lw)}, I)
		}
	}
	for _, c := range [][2]int64{{1, 100}, {2, 100}, {3, 7}} {
		for _, lw := range []int64{0, 2 * c[1]} {
			mk(Spec{Kind: KLimiter, Permits: uint(c[0]), Period: time.Duration(c[1]), LWait: time.Duration(lw)}, c[1])
		}
	}
	return out
}

// ---- concurrency (SX): answers must be those of some sequential order ----

type rlCall struct {
	op   string
	at   int64 // request instant
	wait int64 // -1 = refused
	ret  int64 // instant at which a blocking call returned
	err  error
}

func c05Linearizable(s Spec, calls []rlCall) string {
	idx := make([]int, len(calls))
	for i := range idx {
		idx[i] = i
	}
	var try func(k int, m *rlModel) bool
	perm := make([]int, 0, len(calls))
	used := make([]bool, len(calls))
	try = func(k int, m *rlModel) bool {
		if k == len(calls) {
			return true
		}
		for i := range calls {
			if used[i] {
				continue
			}
			// sequential orders must respect virtual time
			okTime := true
			for j := range calls {
				if !used[j] && j != i && calls[j].at < calls[i].at {
					okTime = false
				}
			}
			if !okTime {
				continue
			}
			c := calls[i]
			_, kk, w := parseOp(c.op)
			if strings.HasPrefix(c.op, "try:") {
				w = 0
			}
			if strings.HasPrefix(c.op, "reserve:") || strings.HasPrefix(c.op, "acquirectx") {
				w = -1
			}
			cp := *m
			wait, commit := cp.request(c.at, kk)
			refused := w != -1 && wait > w
			if c.wait == -3 {
				// a blocking acquire that was cancelled: it reserved, how long it was told to wait is not observable
			} else if refused != (c.wait == -1) || (!refused && wait != c.wait) {
				continue
			}
			if !refused {
				commit()
			}
			used[i] = true
			perm = append(perm, i)
			if try(k+1, &cp) {
				return true
			}
			perm = perm[:len(perm)-1]
			used[i] = false
		}
		return false
	}
	var m *rlModel
	if s.Smooth {
		m = &rlModel{smooth: true, I: int64(s.Interval)}
	} else {
		m = &rlModel{I: int64(s.Period), n: int64(s.Permits)}
	}
	if !try(0, m) {
		var ss []string
		for _, c := range calls {
			if c.wait == -3 {
				ss = append(ss, fmt.Sprintf("%s@%d->cancelled while waiting", c.op, c.at))
				continue
			}
			ss = append(ss, fmt.Sprintf("%s@%d->%d", c.op, c.at, c.wait))
		}
		sort.Strings(ss)
		return "the answers " + strings.Join(ss, ", ") + " are not those of any sequential order of the calls"
	}
	return ""
}

func c05Scenarios(tier string) []*Scenario {
	bound := 2
	if tier == "thorough" {
		bound = 3
	}
	var out []*Scenario
	add := func(name string, s Spec, threads [][]string) {
		out = append(out, &Scenario{
			Name:  fmt.Sprintf("C05/conc/%s [%s] %v", name, s.String(), threads),
			Bound: bound, Reduce: true,
			Body: func() {
				env := &Env{Limiters: map[int]ratelimiter.RateLimiter[int]{}, Reduce: true, Quiet: true}
				env.build(0, s)
				rl := env.Limiters[0]
				var calls []rlCall
				var wg vsync.WaitGroup
				for ti, ops := range threads {
					ops := ops
					wg.Add(1)
					vrt.GoH(fmt.Sprintf("caller%d", ti), func() {
						defer wg.Done()
						for _, op := range ops {
							name, k, w := parseOp(op)
							env.obs()
							c := rlCall{op: op, at: vrt.Elapsed()}
							switch name {
							case "try":
								if rl.TryAcquirePermits(uint(k)) {
									c.wait = 0
								} else {
									c.wait = -1
								}
							case "reserve":
								c.wait = int64(rl.ReservePermits(uint(k)))
							case "tryreserve":
								c.wait = int64(rl.TryReservePermits(uint(k), time.Duration(w)))
							case "acquire":
								err := rl.AcquirePermitsWithMaxWait(context.Background(), uint(k), time.Duration(w))
								c.ret, c.err = vrt.Elapsed(), err
								if err != nil {
									c.wait = -1
								} else {
									c.wait = c.ret - c.at
								}
							case "acquirectx": // blocking acquire cancelled at instant w
								ctx, cancel := vcontext.WithCancel(context.Background())
								vrt.GoH("canceller", func() { vrt.Sleep(w); cancel() })
								err := rl.AcquirePermits(ctx, uint(k))
								c.ret, c.err = vrt.Elapsed(), err
								c.wait = -2 // reserved, but how long is only known to the model
							case "acquiredl": // blocking acquire under a context whose own deadline is w from now
								ctx, cancel := vcontext.WithDeadline(context.Background(), time.Unix(0, vrt.Now()).Add(time.Duration(w)))
								err := rl.AcquirePermits(ctx, uint(k))
								cancel()
								c.ret, c.err = vrt.Elapsed(), err
								c.wait = -2
								if err != nil && c.ret != c.at+w {
									vrt.Fail(fmt.Sprintf("AcquirePermits under a context with deadline %d from t=%d returned %v at t=%d", w, c.at, err, c.ret))
									return
								}
							case "acquiredlmax": // blocking acquire with a max wait of 300 under a context whose own deadline is w from now
								ctx, cancel := vcontext.WithDeadline(context.Background(), time.Unix(0, vrt.Now()).Add(time.Duration(w)))
								err := rl.AcquirePermitsWithMaxWait(ctx, uint(k), 300)
								cancel()
								c.ret, c.err = vrt.Elapsed(), err
								c.wait = -2
								if errors.Is(err, ratelimiter.ErrExceeded) {
									c.wait = -1 // a refusal: nothing is reserved
									c.op = fmt.Sprintf("tryreserve:%d:300", k)
								} else if err != nil && c.ret != c.at+w {
									vrt.Fail(fmt.Sprintf("AcquirePermitsWithMaxWait under a context with deadline %d from t=%d returned %v at t=%d", w, c.at, err, c.ret))
									return
								}
							case "sleep":
								vrt.Sleep(k)
								continue
							}
							env.obs()
							env.addCall(&calls, c)
						}
					})
				}
				wg.Wait()
				var ss []string
				for _, c := range calls {
					ss = append(ss, fmt.Sprintf("%s@%d->%d", c.op, c.at, c.wait))
				}
				sort.Strings(ss)
				vrt.Mark(strings.Join(ss, " "))
				// a cancelled blocking acquire has reserved its permits: replace by a reserve of unknown wait
				var lin []rlCall
				for _, c := range calls {
					if c.wait == -2 {
						if c.err == nil {
							c.wait = c.ret - c.at
							c.op = fmt.Sprintf("reserve:%s", strings.Split(c.op, ":")[1])
						} else {
							// returned early with the context error: the wait it was given is at least ret-at
							if !errors.Is(c.err, context.Canceled) && !(strings.HasPrefix(c.op, "acquiredl") && errors.Is(c.err, context.DeadlineExceeded)) {
								vrt.Fail(fmt.Sprintf("cancelled acquire returned %v", c.err))
								return
							}
							c.wait = -3
							c.op = fmt.Sprintf("reserve:%s", strings.Split(c.op, ":")[1])
						}
					}
					lin = append(lin, c)
				}
				if msg := c05Linearizable(s, lin); msg != "" {
					vrt.Fail(msg)
					return
				}
				// rate invariant (model-free): the last permit of every grant becomes usable at at+wait; the
				// earlier permits of a multi-permit grant are not located without a model, so they are not counted
				var m *rlModel
				if s.Smooth {
					m = &rlModel{smooth: true, I: int64(s.Interval)}
				} else {
					m = &rlModel{I: int64(s.Period), n: int64(s.Permits)}
				}
				var usable []int64
				for _, c := range lin {
					if c.wait >= 0 {
						usable = append(usable, c.at+c.wait)
					}
				}
				if msg := m.invariant(usable); msg != "" {
					vrt.Fail(msg)
				}
			},
		})
	}
	sm := Spec{Kind: KLimiter, Smooth: true, Interval: 100}
	add("smooth-try", sm, [][]string{{"try:1"}, {"try:1"}})
	add("smooth-try3", sm, [][]string{{"try:1"}, {"try:1"}, {"try:1"}})
	add("smooth-reserve", sm, [][]string{{"reserve:1", "reserve:1"}, {"reserve:2"}})
	add("smooth-mixed", sm, [][]string{{"tryreserve:1:100"}, {"reserve:1"}, {"try:1"}})
	add("smooth-acquire", sm, [][]string{{"acquire:1:300"}, {"acquire:1:300"}, {"sleep:100", "try:1"}})
	add("smooth-boundary", sm, [][]string{{"reserve:1", "sleep:100", "try:1"}, {"sleep:100", "try:1"}})
	add("smooth-cancelled", sm, [][]string{{"reserve:1", "acquirectx:1:50"}, {"sleep:60", "reserve:1"}})
	// cancellation landing on the very instant the wait ends, followed by another blocking acquisition
	add("smooth-cancel-at-expiry", sm, [][]string{{"reserve:1", "acquirectx:1:100", "acquire:1:300"}})
	add("smooth-cancel-at-expiry2", sm, [][]string{{"reserve:1", "acquirectx:1:100"}, {"sleep:100", "acquire:1:300"}})
	// the caller's own context deadline expires before (50), exactly when (100) and after (150) the wait ends
	for _, d := range []int{50, 100, 150} {
		add("smooth-own-deadline", sm, [][]string{{"reserve:1", fmt.Sprintf("acquiredl:1:%d", d), "acquire:1:300"}})
	}
	// the same through AcquirePermitsWithMaxWait (the wait is within the max wait: a refusal would have to leave nothing behind)
	for _, d := range []int{50, 150} {
		add("smooth-own-deadline-maxwait", sm, [][]string{{"reserve:1", fmt.Sprintf("acquiredlmax:1:%d", d), "tryreserve:1:1000"}})
	}
	bu := Spec{Kind: KLimiter, Permits: 2, Period: 100}
	add("bursty-own-deadline-maxwait", bu, [][]string{{"reserve:2", "acquiredlmax:1:50", "tryreserve:2:1000"}})
	add("bursty-own-deadline", bu, [][]string{{"reserve:2", "acquiredl:1:50", "tryreserve:2:300"}})
	add("bursty-try", bu, [][]string{{"try:1"}, {"try:1"}, {"try:1"}})
	add("bursty-try2", bu, [][]string{{"try:2"}, {"try:1"}})
	add("bursty-reserve", bu, [][]string{{"reserve:3"}, {"reserve:1"}, {"tryreserve:1:100"}})
	add("bursty-rollover", bu, [][]string{{"reserve:3", "sleep:100", "try:1"}, {"sleep:100", "try:1"}})
	add("bursty-acquire", bu, [][]string{{"acquire:2:300"}, {"acquire:2:300"}})
	return out
}

//go:norace
func (env *Env) addCall(calls *[]rlCall, c rlCall) { *calls = append(*calls, c) }

func init() {
	bxSystemSets["C05"] = c05Systems
	scenarioSets["C05"] = c05Scenarios
	register(&CheckDef{
		Property:  "C05",
		Technique: "explicit-state BFS over operation histories of the real rate limiter against a slot/period reference model, plus schedule exploration of concurrent callers with a sequential-order (linearizability) oracle",
		Rule: "BX: a state is reached by replaying a history of TryAcquire/Reserve/TryReserve/blocking Acquire/executions with permit counts {1,2,3,5} and max waits {0, unit-1, unit, 3 units, none} and clock advances onto slot/period boundaries and long idle gaps on a fresh real limiter; " +
			"SX: 2-3 threads issue such calls at the same virtual instants, every schedule within the deviation bound; distinct = distinct states / observation logs",
		Assume: []string{"slots and periods are aligned to the limiter's creation instant", "k permits at once are k singles at the same instant, the caller waits for the last",
			"0 permits requested is outside the alphabet"},
		Units: func(tier string) []Unit {
			depth := 5
			if tier == "thorough" {
				depth = 8
			}
			var us []Unit
			for _, s := range c05Systems(tier) {
				us = append(us, bxUnit(s, depth))
			}
			for _, sc := range c05Scenarios(tier) {
				us = append(us, scenarioUnit(sc))
			}
			return us
		},
	})
}
