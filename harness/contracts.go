package main

// Layer contracts: what each policy must do given what the layer inside it did, as stated by the
// properties. They are evaluated on the probe log of a finished execution.

import (
	"errors"
	"fmt"
	"sort"
	"time"

	"github.com/failsafe-go/failsafe-go/common"
	"github.com/failsafe-go/failsafe-go/timeout"
)

func resStr(r *common.PolicyResult[int]) string {
	if r == nil {
		return "<nil result>"
	}
	return fmt.Sprintf("(%d,%s)", r.Result, errStr(r.Error))
}

func sameOutcome(a, b *common.PolicyResult[int]) bool {
	return a != nil && b != nil && a.Result == b.Result && a.Error == b.Error
}

// hasCancelSourceAbove reports whether something outside layer i can cancel the execution.
func (env *Env) hasCancelSourceAbove(i int) bool {
	for j := 0; j < i; j++ {
		if k := env.Stack[j].Kind; k == KTimeout || k == KHedge {
			return true
		}
	}
	return env.ExternalCancel
}

// checkTimeoutLayer: C07. Called after the execution returned and a grace period elapsed.
func (env *Env) checkTimeoutLayer(layer int, apps []*App) string {
	L := int64(env.Stack[layer].Limit)
	var evTimes []int64
	for _, e := range env.Events {
		if e.Policy == layer && e.Name == "timeout" {
			evTimes = append(evTimes, e.At)
			if e.E != timeout.ErrExceeded {
				return fmt.Sprintf("timeout listener got error %v", e.E)
			}
		}
	}
	var want []int64
	for _, a := range apps {
		if a.Out == nil {
			if env.Completed {
				return fmt.Sprintf("timeout application %d never returned", a.N)
			}
			continue
		}
		if len(a.Children) != 1 {
			return fmt.Sprintf("timeout application %d ran its inner layer %d times", a.N, len(a.Children))
		}
		c := a.Children[0]
		t0 := a.In.T
		out := a.Out.Res
		exceeded := out != nil && errors.Is(out.Error, timeout.ErrExceeded)
		innerExceeded := c.Out != nil && c.Out.Res != nil && errors.Is(c.Out.Res.Error, timeout.ErrExceeded)
		if c.Out == nil {
			return fmt.Sprintf("timeout application %d returned before its inner layer did", a.N)
		}
		t1 := c.Out.T
		if exceeded && !(innerExceeded && t1 < t0+L) {
			// case B
			if innerExceeded && t1 == t0+L {
				// an inner Timeout produced the same error at the same instant: either reading is fine
				if containsT(evTimes, t0+L) {
					want = append(want, t0+L)
				}
				continue
			}
			if a.Out.T < t0+L {
				return fmt.Sprintf("ErrExceeded returned at t=%d, before the limit elapsed (start %d + limit %d)", a.Out.T, t0, L)
			}
			if t1 < t0+L {
				return fmt.Sprintf("inner layer finished at t=%d, before start %d + limit %d, but ErrExceeded was returned", t1, t0, L)
			}
			if out.Result != 0 {
				return fmt.Sprintf("ErrExceeded returned with a non-zero result %d", out.Result)
			}
			want = append(want, t0+L)
			if !c.In.Exec.IsCanceled() {
				return "ErrExceeded returned but the execution inside the Timeout is not cancelled"
			}
			if c.In.Exec.Context().Err() == nil {
				return "ErrExceeded returned but the context inside the Timeout is not cancelled"
			}
		} else {
			// case A
			if !sameOutcome(out, c.Out.Res) {
				return fmt.Sprintf("Timeout changed the inner result %s to %s without timing out", resStr(c.Out.Res), resStr(out))
			}
			if t1 > t0+L && !env.hasCancelSourceAbove(layer) {
				return fmt.Sprintf("inner layer finished at t=%d, after start %d + limit %d, but no ErrExceeded", t1, t0, L)
			}
			if !env.hasCancelSourceAbove(layer) && c.In.Exec.IsCanceled() {
				return "inner result returned but the execution inside the Timeout was cancelled"
			}
		}
	}
	sort.Slice(evTimes, func(i, j int) bool { return evTimes[i] < evTimes[j] })
	sort.Slice(want, func(i, j int) bool { return want[i] < want[j] })
	if env.hasCancelSourceAbove(layer) {
		// a timer may fire in an application whose result an outer cancellation already replaced:
		// the listener may then run although the caller never sees ErrExceeded from this layer.
		// Required: every ErrExceeded has its listener call, no call is early, at most one per application.
		if len(evTimes) > len(apps) {
			return fmt.Sprintf("timeout listener called %d times for %d applications", len(evTimes), len(apps))
		}
		for _, w := range want {
			if !containsT(evTimes, w) {
				return fmt.Sprintf("ErrExceeded returned but no listener call at t=%d (calls at %v)", w, evTimes)
			}
		}
		return ""
	}
	if len(evTimes) != len(want) {
		return fmt.Sprintf("timeout listener calls at %v, but ErrExceeded results correspond to %v", evTimes, want)
	}
	for i := range want {
		if evTimes[i] != want[i] {
			return fmt.Sprintf("timeout listener called at t=%d, expected exactly start+limit=%d", evTimes[i], want[i])
		}
	}
	return ""
}

func containsT(ts []int64, t int64) bool {
	for _, x := range ts {
		if x == t {
			return true
		}
	}
	return false
}

var _ = time.Second
