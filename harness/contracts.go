package main

// Layer contracts: what each policy must do given what the layer inside it did, as stated by the
// properties. They are evaluated on the probe log of a finished execution.

import (
	"errors"
	"fmt"
	"sort"
	"time"

	"github.com/failsafe-go/failsafe-go/common"
	"github.com/failsafe-go/failsafe-go/timeout"
)

func resStr(r *common.PolicyResult[int]) string {
	if r == nil {
		return "<nil result>"
	}
	return fmt.Sprintf("(%d,%s)", r.Result, errStr(r.Error))
}

func sameOutcome(a, b *common.PolicyResult[int]) bool {
	return a != nil && b != nil && a.Result == b.Result && a.Error == b.Error
}

// hasCancelSourceAbove reports whether something outside layer i can cancel the execution.
func (env *Env) hasCancelSourceAbove(i int) bool {
	for j := 0; j < i; j++ {
		if k := env.Stack[j].Kind; k == KTimeout || k == KHedge {
			return true
		}
	}
	return env.ExternalCancel
}

// checkTimeoutLayer: C07. Called after the execution returned and a grace period elapsed.
func (env *Env) checkTimeoutLayer(layer int, apps []*App) string {
	L := max(int64(env.Stack[layer].Limit), 0) // a zero or negative limit has elapsed at once
	var evTimes []int64
	for _, e := range env.Events {
		if e.Policy == layer && e.Name == "timeout" {
			evTimes = append(evTimes, e.At)
			if e.E != timeout.ErrExceeded {
				return fmt.Sprintf("timeout listener got error %v", e.E)
			}
		}
	}
	var want []int64
	for _, a := range apps {
		if a.Out == nil {
			if env.Completed && !env.hasCancelSourceAbove(layer) {
				return fmt.Sprintf("timeout application %d never returned", a.N)
			}
			continue
		}
		if len(a.Children) != 1 {
			return fmt.Sprintf("timeout application %d ran its inner layer %d times", a.N, len(a.Children))
		}
		c := a.Children[0]
		t0 := a.In.T
		out := a.Out.Res
		exceeded := out != nil && errors.Is(out.Error, timeout.ErrExceeded)
		innerExceeded := c.Out != nil && c.Out.Res != nil && errors.Is(c.Out.Res.Error, timeout.ErrExceeded)
		if c.Out == nil {
			return fmt.Sprintf("timeout application %d returned before its inner layer did", a.N)
		}
		t1 := c.Out.T
		if exceeded && !(innerExceeded && t1 < t0+L) {
			// case B
			if innerExceeded && t1 == t0+L {
				// an inner Timeout produced the same error at the same instant: either reading is fine
				if containsT(evTimes, t0+L) {
					want = append(want, t0+L)
				}
				continue
			}
			if a.Out.T < t0+L {
				return fmt.Sprintf("ErrExceeded returned at t=%d, before the limit elapsed (start %d + limit %d)", a.Out.T, t0, L)
			}
			if t1 < t0+L {
				return fmt.Sprintf("inner layer finished at t=%d, before start %d + limit %d, but ErrExceeded was returned", t1, t0, L)
			}
			if out.Result != 0 {
				return fmt.Sprintf("ErrExceeded returned with a non-zero result %d", out.Result)
			}
			want = append(want, t0+L)
			if !c.In.Exec.IsCanceled() {
				return "ErrExceeded returned but the execution inside the Timeout is not cancelled"
			}
			if c.In.Exec.Context().Err() == nil {
				return "ErrExceeded returned but the context inside the Timeout is not cancelled"
			}
		} else {
			// case A
			if !sameOutcome(out, c.Out.Res) {
				return fmt.Sprintf("Timeout changed the inner result %s to %s without timing out", resStr(c.Out.Res), resStr(out))
			}
			if t1 > t0+L && !env.hasCancelSourceAbove(layer) {
				return fmt.Sprintf("inner layer finished at t=%d, after start %d + limit %d, but no ErrExceeded", t1, t0, L)
			}
			if !env.hasCancelSourceAbove(layer) && c.In.Exec.IsCanceled() {
				return "inner result returned but the execution inside the Timeout was cancelled"
			}
			// the verdict: a result that passes through is a failure for the Timeout exactly when it is (an
			// inner policy's or the function's own) ErrExceeded
			if !env.hasCancelSourceAbove(layer) {
				wantOK := !errors.Is(out.Error, timeout.ErrExceeded)
				if out.Success != wantOK || out.SuccessAll != (wantOK && c.Out.Res.SuccessAll) {
					return fmt.Sprintf("Timeout passed %s through with verdict Success=%v SuccessAll=%v (inner SuccessAll=%v)", resStr(out), out.Success, out.SuccessAll, c.Out.Res.SuccessAll)
				}
			}
		}
	}
	sort.Slice(evTimes, func(i, j int) bool { return evTimes[i] < evTimes[j] })
	sort.Slice(want, func(i, j int) bool { return want[i] < want[j] })
	if env.hasCancelSourceAbove(layer) {
		// a timer may fire in an application whose result an outer cancellation already replaced:
		// the listener may then run although the caller never sees ErrExceeded from this layer.
		// Required: every ErrExceeded has its listener call, no call is early, at most one per application.
		if len(evTimes) > len(apps) {
			return fmt.Sprintf("timeout listener called %d times for %d applications", len(evTimes), len(apps))
		}
		for _, w := range want {
			if !containsT(evTimes, w) {
				return fmt.Sprintf("ErrExceeded returned but no listener call at t=%d (calls at %v)", w, evTimes)
			}
		}
		return ""
	}
	if len(evTimes) != len(want) {
		return fmt.Sprintf("timeout listener calls at %v, but ErrExceeded results correspond to %v", evTimes, want)
	}
	for i := range want {
		if evTimes[i] != want[i] {
			return fmt.Sprintf("timeout listener called at t=%d, expected exactly start+limit=%d", evTimes[i], want[i])
		}
	}
	return ""
}

func containsT(ts []int64, t int64) bool {
	for _, x := range ts {
		if x == t {
			return true
		}
	}
	return false
}

var _ = time.Second

// matches reports whether an outcome matches any of the conditions (C12 reference, see classify.go).
func matchesAny(cs []Cond, v int, err error) bool {
	for _, c := range cs {
		if condMatches(c, v, err) {
			return true
		}
	}
	return false
}

// checkHedgeLayer: C09.
func (env *Env) checkHedgeLayer(layer int, apps []*App) string {
	s := env.Stack[layer]
	if env.hedgeAbove(layer) {
		return "" // several applications of this layer overlap: their attempts cannot be told apart in the log
	}
	cancellable := func(r *common.PolicyResult[int]) bool {
		if r == nil {
			return false
		}
		if len(s.Cancel) == 0 {
			return true
		}
		return matchesAny(s.Cancel, r.Result, r.Error)
	}
	for _, a := range apps {
		t0 := a.In.T
		if a.Started > s.MaxHedges+1 {
			return fmt.Sprintf("hedge started %d attempts, maxHedges is %d", a.Started, s.MaxHedges)
		}
		for j, at := range a.StartTimes {
			if at < t0+hedgeOffset(s, j+1) {
				return fmt.Sprintf("hedge %d started at t=%d, before the first %d hedge delays (%d in all) had elapsed since t=%d", j+1, at, j+1, hedgeOffset(s, j+1), t0)
			}
		}
		if a.Out == nil {
			if env.Completed {
				return "hedge application never returned"
			}
			continue
		}
		out := a.Out.Res
		canceledOutside := env.hasCancelSourceAbove(layer) && a.In.Exec.IsCanceled()
		// which attempts had finished when the hedge returned, and the earliest cancellable one
		var winner *App
		finished := 0
		firstCancellable := int64(-1)
		for _, c := range a.Children {
			if c.Out != nil && c.Out.Seq < a.Out.Seq {
				finished++
				if cancellable(c.Out.Res) && (firstCancellable == -1 || c.Out.T < firstCancellable) {
					firstCancellable = c.Out.T
				}
				if c.Out.Res == out {
					winner = c
				}
			}
		}
		if canceledOutside {
			continue // the result is the outer cancellation's (C08)
		}
		if winner == nil {
			return fmt.Sprintf("hedge returned %s, which none of its finished attempts produced", resStr(out))
		}
		// no attempt may start at an instant strictly later than a cancellable result
		if firstCancellable >= 0 {
			for j, at := range a.StartTimes {
				if at > firstCancellable {
					return fmt.Sprintf("hedge %d started at t=%d, after a cancellable result was produced at t=%d", j+1, at, firstCancellable)
				}
			}
			if !cancellable(out) {
				// Results produced at the same virtual instant are unordered (interpretation rule 11): a
				// final non-matching result may win against a matching one produced at that very instant.
				if firstCancellable < winner.Out.T {
					return fmt.Sprintf("hedge returned %s (produced at t=%d) although an attempt had produced a result matching the cancel conditions at t=%d", resStr(out), winner.Out.T, firstCancellable)
				}
				if a.Started != s.MaxHedges+1 || finished != s.MaxHedges+1 {
					return fmt.Sprintf("hedge returned a non-cancellable result %s with %d of %d attempts started and %d finished", resStr(out), a.Started, s.MaxHedges+1, finished)
				}
			} else if a.Out.T != firstCancellable {
				return fmt.Sprintf("a cancellable result was produced at t=%d but the hedge returned at t=%d", firstCancellable, a.Out.T)
			}
		} else {
			if a.Started != s.MaxHedges+1 || finished != s.MaxHedges+1 {
				return fmt.Sprintf("hedge returned a non-cancellable result %s with %d of %d attempts started and %d finished", resStr(out), a.Started, s.MaxHedges+1, finished)
			}
		}
		// losers cancelled, winner not (sampled by the probe at the moment the hedge returned)
		for j, c := range a.Children {
			st, ok := env.CancelAtReturn[c.In]
			if !ok {
				continue
			}
			if c == winner && st && !env.hasCancelSourceAbove(layer) {
				return fmt.Sprintf("the winning attempt %d was cancelled when the hedge returned", j)
			}
			if c != winner && !st {
				return fmt.Sprintf("attempt %d was not cancelled when the hedge returned with attempt %d's result", j, winner.N)
			}
		}
		if env.ProbeStats && !env.hasHedgeOrRetryElsewhere(layer) {
			if a.Out.Hedges != a.Started-1 {
				return fmt.Sprintf("Hedges()=%d after %d hedges were started", a.Out.Hedges, a.Started-1)
			}
			if a.Out.Attempts != a.Started {
				return fmt.Sprintf("Attempts()=%d after %d attempts were started", a.Out.Attempts, a.Started)
			}
		}
	}
	return ""
}

func (env *Env) hasHedgeOrRetryElsewhere(layer int) bool {
	for j, s := range env.Stack {
		if j != layer && (s.Kind == KHedge || s.Kind == KRetry) {
			return true
		}
	}
	return false
}
