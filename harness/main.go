package main

import (
	"flag"
	"fmt"
	"os"
)

func main() {
	if len(os.Args) < 2 {
		fmt.Println("usage: vcheck litmus | check <prop> | replay <file>")
		os.Exit(2)
	}
	initRaceOracle()
	switch os.Args[1] {
	case "litmus":
		fs := flag.NewFlagSet("litmus", flag.ExitOnError)
		v := fs.Bool("v", false, "verbose")
		fs.Parse(os.Args[2:])
		if !runLitmus(*v) {
			os.Exit(2)
		}
		fmt.Println("litmus: all passed")
	default:
		fmt.Println("unknown command")
		os.Exit(2)
	}
}
