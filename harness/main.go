package main

import (
	"flag"
	"fmt"
	"os"
)

func main() {
	if len(os.Args) < 2 {
		fmt.Println("usage: vcheck litmus | check <prop> | replay <file>")
		os.Exit(2)
	}
	initRaceOracle()
	switch os.Args[1] {
	case "litmus":
		fs := flag.NewFlagSet("litmus", flag.ExitOnError)
		v := fs.Bool("v", false, "verbose")
		fs.Parse(os.Args[2:])
		if !runLitmus(*v) {
			os.Exit(2)
		}
		fmt.Println("litmus: all passed")
	case "worker":
		workerMain(os.Args[2], os.Args[3])
	case "check":
		fs := flag.NewFlagSet("check", flag.ExitOnError)
		tier := fs.String("tier", "quick", "quick|thorough")
		fs.Parse(os.Args[3:])
		os.Exit(runCheck(os.Args[2], *tier))
	case "list":
		for _, u := range checks[os.Args[2]].Units(os.Args[3]) {
			fmt.Println(u.Name)
		}
	default:
		fmt.Println("unknown command")
		os.Exit(2)
	}
}
