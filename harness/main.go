package main

import (
	"flag"
	"fmt"
	"os"
	"runtime/pprof"
	"sort"
	"strings"
	"time"
)

func main() {
	if len(os.Args) < 2 {
		fmt.Println("usage: vcheck litmus | check <prop> | replay <file>")
		os.Exit(2)
	}
	initRaceOracle()
	switch os.Args[1] {
	case "litmus":
		fs := flag.NewFlagSet("litmus", flag.ExitOnError)
		v := fs.Bool("v", false, "verbose")
		fs.Parse(os.Args[2:])
		if !runLitmus(*v) {
			os.Exit(2)
		}
		fmt.Println("litmus: all passed")
	case "worker":
		workerMain(os.Args[2], os.Args[3])
	case "check":
		fs := flag.NewFlagSet("check", flag.ExitOnError)
		tier := fs.String("tier", "quick", "quick|thorough")
		fs.Parse(os.Args[3:])
		os.Exit(runCheck(os.Args[2], *tier))
	case "explore": // explore <prop> <tier> <unit-substring> [reduce|full]
		os.Setenv("VERIF_DEBUG_OUTCOMES", "1")
		debugOutcomes = true
		maxScen := 3
		if m := os.Getenv("VERIF_MAXSCEN"); m != "" {
			fmt.Sscan(m, &maxScen)
		}
		for _, sc := range scenariosOf(os.Args[2], os.Args[3]) {
			if !strings.Contains(sc.Name, os.Args[4]) {
				continue
			}
			if maxScen--; maxScen < 0 {
				break
			}
			if len(os.Args) > 5 {
				sc.Reduce = os.Args[5] == "reduce"
			}
			if b := os.Getenv("VERIF_BOUND"); b != "" {
				fmt.Sscan(b, &sc.Bound)
			}
			st := Explore(sc, time.Now().Add(5*time.Minute), false)
			fmt.Printf("%s\n  reduce=%v executions=%d pruned=%d states=%d outcomes=%d bound=%d violations=%d\n", sc.Name, sc.Reduce, st.Executions, st.Pruned, st.States, st.Outcomes, st.BoundCompleted, len(st.Violations))
			var keys []string
			for k := range st.OutcomeLogs {
				keys = append(keys, strings.Join(st.OutcomeLogs[k], " | "))
			}
			sort.Strings(keys)
			for _, k := range keys {
				fmt.Println("   ", k)
			}
			for _, v := range st.Violations {
				fmt.Println("  VIOLATION:", v.Message)
			}
		}
	case "replay":
		os.Exit(replay(os.Args[2]))
	case "list":
		for _, u := range checks[os.Args[2]].Units(os.Args[3]) {
			fmt.Println(u.Name)
		}
	default:
		fmt.Println("unknown command")
		os.Exit(2)
	}
}

func init() {
	if p := os.Getenv("VERIF_CPUPROFILE"); p != "" {
		f, _ := os.Create(p)
		pprof.StartCPUProfile(f)
		go func() {
			time.Sleep(20 * time.Second)
			pprof.StopCPUProfile()
			f.Close()
			os.Exit(0)
		}()
	}
}
