package main

// Engine litmus tests: tiny programs with known answers (DESIGN.md §3.6). A failure here is an
// infrastructure error, never a verdict about the library.

import (
	"context"
	"fmt"
	"strings"
	"time"

	"github.com/failsafe-go/failsafe-go/verifrt/vatomic"
	"github.com/failsafe-go/failsafe-go/verifrt/vcontext"
	"github.com/failsafe-go/failsafe-go/verifrt/vrt"
	"github.com/failsafe-go/failsafe-go/verifrt/vsync"
	"github.com/failsafe-go/failsafe-go/verifrt/vtime"
)

type litmusCase struct {
	name   string
	sc     *Scenario
	expect func(st *Stats) string
}

func join(n int) (func(), func()) {
	var wg vsync.WaitGroup
	wg.Add(n)
	return wg.Done, wg.Wait
}

func litmusCases() []litmusCase {
	var cases []litmusCase
	add := func(name string, bound int, body func(), expect func(st *Stats) string) {
		cases = append(cases, litmusCase{name, &Scenario{Name: "litmus/" + name, Bound: bound, Body: body}, expect})
	}
	execs := func(n int) func(st *Stats) string {
		return func(st *Stats) string {
			if st.Executions != n {
				return fmt.Sprintf("executions=%d want %d", st.Executions, n)
			}
			if len(st.Violations) > 0 {
				return "unexpected violation: " + st.Violations[0].Message
			}
			return ""
		}
	}
	viol := func(want bool) func(st *Stats) string {
		return func(st *Stats) string {
			if (len(st.Violations) > 0) != want {
				msg := ""
				if len(st.Violations) > 0 {
					msg = st.Violations[0].Message
				}
				return fmt.Sprintf("violations=%d want>0=%v (execs %d) %s", len(st.Violations), want, st.Executions, msg)
			}
			return ""
		}
	}
	outcomes := func(n int) func(st *Stats) string {
		return func(st *Stats) string {
			if len(st.Violations) > 0 {
				return "unexpected violation: " + st.Violations[0].Message
			}
			if st.Outcomes != n {
				return fmt.Sprintf("outcomes=%d want %d (execs %d)", st.Outcomes, n, st.Executions)
			}
			return ""
		}
	}

	twoByTwo := func() {
		var a, b vatomic.Int32
		done, wait := join(2)
		vrt.GoH("A", func() { a.Add(1); a.Add(1); done() })
		vrt.GoH("B", func() { b.Add(1); b.Add(1); done() })
		wait()
	}
	add("2x2-bound0", 0, twoByTwo, execs(2)) // main blocks in wait(): choosing A or B first is free

	lost := func(locked bool) func() {
		return func() {
			var x vatomic.Int32
			var mu vsync.Mutex
			done, wait := join(2)
			inc := func() {
				if locked {
					mu.Lock()
				}
				v := x.Load()
				x.Store(v + 1)
				if locked {
					mu.Unlock()
				}
				done()
			}
			vrt.GoH("A", inc)
			vrt.GoH("B", inc)
			wait()
			if x.Load() != 2 {
				vrt.Fail("lost update")
			}
		}
	}
	add("lost-update-bound0", 0, lost(false), viol(false))
	add("lost-update-bound1", 1, lost(false), viol(true))
	add("lost-update-locked", 2, lost(true), viol(false))

	add("lock-inversion", 1, func() {
		var m1, m2 vsync.Mutex
		done, wait := join(2)
		vrt.GoH("A", func() { m1.Lock(); m2.Lock(); m2.Unlock(); m1.Unlock(); done() })
		vrt.GoH("B", func() { m2.Lock(); m1.Lock(); m1.Unlock(); m2.Unlock(); done() })
		wait()
	}, viol(true))

	add("select-two-ready", 0, func() {
		a := make(chan int, 1)
		b := make(chan int, 1)
		a <- 1
		b <- 2
		switch vrt.Select(false, vrt.R(a), vrt.R(b)) {
		case 0:
			vrt.Mark("a")
		case 1:
			vrt.Mark("b")
		}
	}, outcomes(2))

	add("select-default", 0, func() {
		a := make(chan int, 1)
		if vrt.Select(true, vrt.R(a)) != -1 {
			vrt.Fail("default not taken")
		}
		close(a)
		if vrt.Select(true, vrt.R(a)) != 0 {
			vrt.Fail("closed channel not ready")
		}
		var nilch chan int
		if vrt.Select(true, vrt.R(nilch), vrt.W(nilch)) != -1 {
			vrt.Fail("nil channel ready")
		}
	}, outcomes(1))

	add("timers-same-instant", 0, func() {
		t1 := vtime.NewTimer(10)
		t2 := vtime.NewTimer(10)
		switch vrt.Select(false, vrt.R(t1.C), vrt.R(t2.C)) {
		case 0:
			vrt.Mark("t1")
		case 1:
			vrt.Mark("t2")
		}
	}, outcomes(2))

	add("timers-one-tick-apart", 0, func() {
		t1 := vtime.NewTimer(10)
		t2 := vtime.NewTimer(11)
		switch vrt.Select(false, vrt.R(t1.C), vrt.R(t2.C)) {
		case 0:
			vrt.Mark("t1")
		case 1:
			vrt.Mark("t2")
		}
		if vrt.Elapsed() != 10 {
			vrt.Failf("woke at %d", vrt.Elapsed())
		}
	}, outcomes(1))

	stopRace := func() {
		var fired vatomic.Bool
		t := vtime.AfterFunc(10, func() { fired.Store(true) })
		vrt.Sleep(10)
		stopped := t.Stop()
		vrt.Sleep(1)
		vrt.Markf("stopped=%v fired=%v", stopped, fired.Load())
		if stopped == fired.Load() {
			vrt.Fail("Stop result inconsistent with firing")
		}
	}
	add("afterfunc-stop-race", 0, stopRace, outcomes(2))

	add("overdue-timer-costs-one", 0, func() {
		var x vatomic.Int32
		vtime.AfterFunc(0, func() { x.Store(1) })
		v := x.Load()
		vrt.Markf("saw %d", v)
	}, outcomes(1))
	add("overdue-timer-bound2", 2, func() {
		var x vatomic.Int32
		vtime.AfterFunc(0, func() { x.Store(1) })
		v := x.Load()
		vrt.Markf("saw %d", v)
	}, outcomes(2))

	add("context-cancel-wakes-children", 1, func() {
		ctx, cancel := vcontext.WithCancel(context.Background())
		child, _ := context.WithCancel(ctx)
		done, wait := join(2)
		for i := 0; i < 2; i++ {
			vrt.GoH("W", func() { vrt.Recv(child.Done()); done() })
		}
		cancel()
		wait()
		if vrt.CtxErr(child) != context.Canceled {
			vrt.Fail("child not canceled")
		}
	}, viol(false))

	add("virtual-deadline", 0, func() {
		ctx, cancel := vcontext.WithTimeout(context.Background(), 50*time.Nanosecond)
		defer cancel()
		child, c2 := context.WithCancel(ctx)
		defer c2()
		vrt.Recv(child.Done())
		if vrt.Elapsed() != 50 || child.Err() != context.DeadlineExceeded || context.Cause(child) != context.DeadlineExceeded {
			vrt.Failf("t=%d err=%v cause=%v", vrt.Elapsed(), child.Err(), context.Cause(child))
		}
	}, viol(false))

	leak := func(name string, body func(), want bool) {
		cases = append(cases, litmusCase{name, &Scenario{Name: "litmus/" + name, Bound: 0, Leak: true, Body: body}, viol(want)})
	}
	leak("leak-parked-thread", func() {
		ch := make(chan int)
		vrt.Go(func() { vrt.Recv(ch) })
	}, true)
	leak("leak-future-timer", func() { vtime.NewTimer(100) }, true)
	leak("noleak-stopped-timer", func() { vtime.NewTimer(100).Stop() }, false)
	leak("noleak-overdue-timer", func() {
		vtime.AfterFunc(5, func() {})
		vrt.Sleep(5)
	}, false)

	add("unbuffered-rendezvous", 1, func() {
		ch := make(chan int)
		done, wait := join(2)
		got := 0
		vrt.GoH("R", func() { got = vrt.Recv(ch); done() })
		vrt.GoH("S", func() { vrt.Send(ch, 7); done() })
		wait()
		if got != 7 {
			vrt.Failf("received %d", got)
		}
	}, viol(false))
	add("unbuffered-send-without-receiver-blocks", 0, func() {
		ch := make(chan int)
		vrt.GoH("S", func() { vrt.Send(ch, 1); vrt.Fail("send on an unbuffered channel completed without a receiver") })
		vrt.Sleep(10)
	}, viol(false))
	add("unbuffered-select-default", 1, func() {
		ch := make(chan int)
		done, wait := join(1)
		vrt.GoH("S", func() { vrt.Send(ch, 5); done() })
		vrt.Sleep(1) // the sender is parked now
		switch vrt.Select(true, vrt.R(ch)) {
		case 0:
			if v := vrt.SelRecv(ch); v != 5 {
				vrt.Failf("got %d", v)
			}
		default:
			vrt.Fail("default taken although a sender was waiting")
		}
		wait()
	}, viol(false))
	return cases
}

// twoByTwoCount: with two threads of two independent steps each there are C(4,2)=6 interleavings.
func litmusInterleavings() string {
	sc := &Scenario{Name: "litmus/2x2-unbounded", Bound: 8, Body: func() {
		var a, b vatomic.Int32
		done, wait := join(2)
		vrt.GoH("A", func() { a.Add(1); a.Add(1); done() })
		vrt.GoH("B", func() { b.Add(1); b.Add(1); done() })
		wait()
	}}
	st := Explore(sc, time.Time{}, false)
	if len(st.Violations) > 0 {
		return "violation: " + st.Violations[0].Message
	}
	if st.Executions < 6 {
		return fmt.Sprintf("2x2 unbounded: %d executions, want at least the 6 interleavings of the four steps", st.Executions)
	}
	return ""
}

func runLitmus(verbose bool) bool {
	ok := true
	for _, c := range litmusCases() {
		st := Explore(c.sc, time.Time{}, false)
		msg := c.expect(st)
		if msg != "" {
			ok = false
			fmt.Printf("LITMUS FAIL %s: %s\n", c.name, msg)
		} else if verbose {
			fmt.Printf("litmus ok   %s (execs=%d outcomes=%d)\n", c.name, st.Executions, st.Outcomes)
		}
	}
	if msg := litmusInterleavings(); msg != "" {
		ok = false
		fmt.Println("LITMUS FAIL", msg)
	}
	if vrt.RaceBuild {
		racy := func(locked bool) func() {
			return func() {
				counter := 0
				var mu vsync.Mutex
				done, wait := join(2)
				w := func() {
					if locked {
						mu.Lock()
					}
					counter++
					if locked {
						mu.Unlock()
					}
					done()
				}
				vrt.GoH("A", w)
				vrt.GoH("B", w)
				wait()
			}
		}
		st := Explore(&Scenario{Name: "litmus/race-negative", Bound: 1, Body: racy(true)}, time.Time{}, false)
		if len(st.Violations) > 0 {
			ok = false
			fmt.Println("LITMUS FAIL race oracle reported a mutex-ordered counter:", st.Violations[0].Message)
		}
		st = Explore(&Scenario{Name: "litmus/race-positive", Bound: 0, Body: racy(false)}, time.Time{}, true)
		if len(st.Violations) == 0 || !strings.HasPrefix(st.Violations[0].Message, "data race") {
			ok = false
			fmt.Println("LITMUS FAIL race oracle missed an unsynchronised counter written by two threads run back to back")
		} else if verbose {
			fmt.Println("litmus ok   race-positive:", strings.SplitN(st.Violations[0].Message, "\n", 2)[0])
		}
	}
	// state cache: independent steps are not permuted, dependent ones still are (explorer logic,
	// identical in both builds: checked in the normal build only, it is the expensive part)
	if !vrt.RaceBuild {
		body := func() {
			var a, b vatomic.Int32
			done, wait := join(2)
			vrt.GoH("A", func() { a.Add(1); a.Add(1); a.Add(1); done() })
			vrt.GoH("B", func() { b.Add(1); b.Add(1); b.Add(1); done() })
			wait()
		}
		full := Explore(&Scenario{Name: "litmus/indep-full", Bound: 8, Body: body}, time.Time{}, false)
		red := Explore(&Scenario{Name: "litmus/indep-reduced", Bound: 8, Body: body, Reduce: true}, time.Time{}, false)
		if red.Executions+red.Pruned >= full.Executions || len(red.Violations)+len(full.Violations) > 0 {
			ok = false
			fmt.Printf("LITMUS FAIL state cache did not reduce independent threads: full=%d reduced=%d(+%d pruned)\n", full.Executions, red.Executions, red.Pruned)
		} else if verbose {
			fmt.Printf("litmus ok   state-cache independent threads: full=%d reduced=%d (+%d pruned runs)\n", full.Executions, red.Executions, red.Pruned)
		}
		// same outcome sets with and without the cache on a scenario with timer ties and selects
		ties := func() {
			sem := make(chan struct{}, 1)
			done, wait := join(3)
			for i := 0; i < 3; i++ {
				i := i
				vrt.GoH("W", func() {
					defer done()
					tm := vtime.NewTimer(time.Duration(10))
					switch vrt.Select(false, vrt.W(sem), vrt.R(tm.C)) {
					case 0:
						sem <- struct{}{}
						vrt.Sleep(10)
						vrt.Point("obs")
						vrt.M("got", i, vrt.Elapsed())
						vrt.Recv(sem)
					case 1:
						<-tm.C
						vrt.Point("obs")
						vrt.M("timeout", i)
					}
				})
			}
			wait()
		}
		fullT := Explore(&Scenario{Name: "litmus/ties-full", Bound: 1, Body: ties}, time.Time{}, false)
		redT := Explore(&Scenario{Name: "litmus/ties-reduced", Bound: 1, Body: ties, Reduce: true}, time.Time{}, false)
		if fullT.Outcomes != redT.Outcomes || len(redT.Violations) > 0 {
			ok = false
			fmt.Printf("LITMUS FAIL state cache changed the outcome set: full=%d outcomes (%d execs), reduced=%d outcomes (%d execs) %v\n", fullT.Outcomes, fullT.Executions, redT.Outcomes, redT.Executions, redT.Violations)
		} else if verbose {
			fmt.Printf("litmus ok   state-cache ties: %d outcomes both ways, full=%d reduced=%d(+%d) executions\n", fullT.Outcomes, fullT.Executions, redT.Executions, redT.Pruned)
		}
		lostRed := Explore(&Scenario{Name: "litmus/lost-update-reduced", Bound: 1, Reduce: true, Body: litmusCases()[2].sc.Body}, time.Time{}, false)
		if len(lostRed.Violations) == 0 {
			ok = false
			fmt.Println("LITMUS FAIL state cache hid the lost update")
		}
	}
	// replay determinism + corrupted choice list
	sc := litmusCases()[2].sc
	st := Explore(sc, time.Time{}, true)
	if len(st.Violations) == 1 {
		v := st.Violations[0]
		bad := append([]vrt.Choice{}, v.Choices...)
		bad[0].N += 3
		r := vrt.Execute(sc.opts(bad, false), sc.Body)
		if r.Diverged == "" {
			ok = false
			fmt.Println("LITMUS FAIL corrupted choice list was not rejected")
		}
	}
	return ok
}
