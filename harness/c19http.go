package main

// HTTP / gRPC part of C19: the C18 harness restricted to caller contexts that never end, with the
// leak oracle on and the "every response that is not returned is closed" check.

import (
	"time"

	"google.golang.org/grpc/codes"
)

func c19HTTPScenarios(tier string) []*Scenario {
	var out []*Scenario
	ok := srvStep{Status: 200, Body: "response"}
	scripts := [][]srvStep{
		{ok},
		{{Status: 500, Body: "e"}, ok},
		{{Status: 503, RetryAfter: "1"}, {Status: 429, RetryAfter: "1", Body: "x"}, ok},
		{{Status: 200, Body: "slow", Think: 300 * time.Millisecond}, {Status: 200, Body: "fast", Think: time.Millisecond}},
		{{Status: 500, Think: 600 * time.Millisecond}, ok},
	}
	for _, rc := range []string{"background", "value", "cancelled-later"} {
		for _, ec := range []string{"none", "cancel"} {
			for _, st := range []string{"none", "retry", "timeout", "hedge", "retry+timeout", "retry+hedge"} {
				for _, sc := range scripts {
					c := httpCase{bodyKind: "buffer", body: "hello body", reqCtx: rc, execCtx: ec, stack: st, script: sc, via: "roundtripper", leakOnly: true}
					bound := 1
					out = append(out, &Scenario{Name: "C19/http " + c.String(), Bound: bound, Reduce: true, Leak: true, Body: c.run()})
				}
			}
		}
	}
	// a request body that cannot be rewound for the retry: the attempt fails before it is sent, nothing stays behind
	for _, rc := range []string{"value", "cancelled-later"} {
		for _, ec := range []string{"none", "cancel"} {
			for _, st := range []string{"retry", "retry+timeout", "timeout+retry"} {
				c := httpCase{bodyKind: "seeker-once", body: "hello body", reqCtx: rc, execCtx: ec, stack: st, script: scripts[1], via: "roundtripper", leakOnly: true}
				out = append(out, &Scenario{Name: "C19/http " + c.String(), Bound: 1, Reduce: true, Leak: true, Body: c.run()})
			}
		}
	}
	for _, side := range []string{"client", "server"} {
		for _, cx := range []string{"background", "metadata", "cancel"} {
			for _, st := range []string{"none", "retry", "timeout", "retry+timeout"} {
				c := grpcCase{side: side, ctx: cx, stack: st, codes: []codes.Code{codes.Unavailable, codes.OK}, leak: true}
				out = append(out, &Scenario{Name: "C19/grpc " + c.String(), Bound: 1, Reduce: true, Leak: true, Body: c.body()})
			}
		}
	}
	return out
}
