package main

// Event (C16) and statistics (C17) contracts, evaluated on the combined log of one execution.

import (
	"errors"
	"fmt"
	"sort"
	"strings"

	"github.com/failsafe-go/failsafe-go/bulkhead"
	"github.com/failsafe-go/failsafe-go/ratelimiter"
)

func (env *Env) eventsIn(policy int, lo, hi int) map[string][]*Event {
	out := map[string][]*Event{}
	for i := range env.Events {
		e := &env.Events[i]
		if e.Policy == policy && e.Seq > lo && e.Seq < hi {
			out[e.Name] = append(out[e.Name], e)
		}
	}
	return out
}

func (env *Env) hedgeAbove(layer int) bool {
	for j := 0; j < layer; j++ {
		if env.Stack[j].Kind == KHedge {
			return true
		}
	}
	return false
}

// checkEvents: C16 for one (sequential or hedged) execution.
func (env *Env) checkEvents(rs *RefState) string {
	_, byLayer := env.Apps()
	for i, s := range env.Stack {
		apps := byLayer[i]
		switch s.Kind {
		case KRetry:
			if env.hedgeAbove(i) {
				continue
			}
			failed, exhausted := 0, false
			for _, a := range apps {
				if a.Out == nil || a.In.Exec.IsCanceled() {
					return "" // cancelled executions: C08
				}
				ev := env.eventsIn(i, a.In.Seq, a.Out.Seq)
				if exhausted {
					if len(ev) != 0 {
						return fmt.Sprintf("retry policy %d with exhausted budget emitted events %v", i, keys(ev))
					}
					continue
				}
				n := len(a.Children)
				if len(ev["scheduled"]) != n-1 || len(ev["retry"]) != n-1 {
					return fmt.Sprintf("retry policy %d: %d invocations, OnRetryScheduled x%d, OnRetry x%d (want %d each)", i, n, len(ev["scheduled"]), len(ev["retry"]), n-1)
				}
				for k := 0; k+1 < n; k++ {
					sc, rt, next := ev["scheduled"][k], ev["retry"][k], a.Children[k+1]
					if !(a.Children[k].Out.Seq < sc.Seq && sc.Seq < rt.Seq && rt.Seq < next.In.Seq) {
						return fmt.Sprintf("retry policy %d: retry %d out of order (result %d, scheduled %d, retry %d, next invocation %d)", i, k, a.Children[k].Out.Seq, sc.Seq, rt.Seq, next.In.Seq)
					}
					r := a.Children[k].Out.Res
					for _, e := range []*Event{sc, rt} {
						if e.LastV != r.Result || e.LastE != r.Error {
							return fmt.Sprintf("retry policy %d: %s event carries last result (%d,%v), the failed attempt returned %s", i, e.Name, e.LastV, e.LastE, resStr(r))
						}
					}
				}
				nf, ns := 0, 0
				var lastFail bool
				for _, c := range a.Children {
					if isFailure(s.Handle, c.Out.Res.Result, c.Out.Res.Error) {
						nf++
						failed++
						lastFail = true
					} else {
						ns++
						lastFail = false
					}
				}
				if len(ev["failure"]) != nf || len(ev["success"]) != ns {
					return fmt.Sprintf("retry policy %d: OnFailure x%d OnSuccess x%d, it classified %d failures and %d successes", i, len(ev["failure"]), len(ev["success"]), nf, ns)
				}
				last := a.Children[n-1].Out
				exh := lastFail && (s.MaxRetries != -1 && failed > s.MaxRetries || s.MaxDuration != 0 && last.T-env.ExecStart > int64(s.MaxDuration))
				boundary := s.MaxDuration != 0 && last.T-env.ExecStart == int64(s.MaxDuration)
				abortMust, abortMay := matchSet(s.Abort, last.Res.Result, last.Res.Error)
				for _, name := range []string{"exceeded", "abort"} {
					for _, e := range ev[name] {
						if e.LastV != last.Res.Result || e.LastE != last.Res.Error {
							return fmt.Sprintf("retry policy %d: %s event carries last result (%d,%v), the last attempt returned %s", i, name, e.LastV, e.LastE, resStr(last.Res))
						}
					}
				}
				ne, na := len(ev["exceeded"]), len(ev["abort"])
				abort := lastFail && (abortMust || abortMay && na == 1)
				switch {
				case ne > 1 || na > 1 || ne+na > 1:
					return fmt.Sprintf("retry policy %d: OnRetriesExceeded x%d OnAbort x%d", i, ne, na)
				case abort && exh: // rule 4: either story, one event
					if ne+na != 1 {
						return fmt.Sprintf("retry policy %d: abort-matching failure on the exhausting attempt, OnRetriesExceeded x%d OnAbort x%d", i, ne, na)
					}
				case abort:
					if na != 1 || ne != 0 {
						return fmt.Sprintf("retry policy %d aborted: OnAbort x%d OnRetriesExceeded x%d", i, na, ne)
					}
				case exh:
					if ne != 1 || na != 0 {
						return fmt.Sprintf("retry policy %d gave up: OnRetriesExceeded x%d OnAbort x%d", i, ne, na)
					}
				default:
					if (ne != 0 && !boundary) || na != 0 {
						return fmt.Sprintf("retry policy %d neither aborted nor gave up: OnRetriesExceeded x%d OnAbort x%d", i, ne, na)
					}
				}
				exhausted = exhausted || exh || (boundary && ne == 1)
			}
		case KBreaker:
			if rs.Unsynced[i] {
				continue
			}
			var want []string
			for _, e := range rs.Breakers[i].events {
				to := e[strings.Index(e, "->")+2:]
				kind := map[string]string{"open": "open", "closed": "close", "half-open": "halfopen"}[to]
				want = append(want, kind+":"+e, "changed:"+e)
			}
			var got []string
			nf, ns := 0, 0
			for k := range env.Events {
				e := &env.Events[k]
				if e.Policy != i {
					continue
				}
				switch e.Name {
				case "open", "close", "halfopen", "changed":
					got = append(got, fmt.Sprintf("%s:%v->%v", e.Name, e.Old, e.New))
				case "failure":
					nf++
				case "success":
					ns++
				}
			}
			if !env.hedgeAbove(i) && strings.Join(got, ",") != strings.Join(want, ",") {
				return fmt.Sprintf("breaker %d state-change events %v, the reference machine emits %v", i, got, want)
			}
			wf, ws := 0, 0
			for _, a := range apps {
				if a.Out != nil && len(a.Children) == 1 && a.Children[0].Out != nil {
					if isFailure(s.Handle, a.Children[0].Out.Res.Result, a.Children[0].Out.Res.Error) {
						wf++
					} else {
						ws++
					}
				}
			}
			if nf != wf || ns != ws {
				return fmt.Sprintf("breaker %d: OnFailure x%d OnSuccess x%d, it handled %d failures and %d successes", i, nf, ns, wf, ws)
			}
		case KBulkhead, KLimiter:
			name, sentinel := "full", bulkhead.ErrFull
			if s.Kind == KLimiter {
				name, sentinel = "ratelimited", ratelimiter.ErrExceeded
			}
			want := 0
			for _, a := range apps {
				if a.Out != nil && len(a.Children) == 0 && errors.Is(a.Out.Res.Error, sentinel) {
					want++
				}
			}
			if got := len(env.eventsIn(i, 0, 1<<60)[name]); got != want {
				return fmt.Sprintf("policy %d (%s): %s listener x%d, %d rejections", i, s.Kind, name, got, want)
			}
		case KFallback:
			if env.hedgeAbove(i) {
				continue
			}
			for _, a := range apps {
				if a.Out == nil || len(a.Children) != 1 || a.Children[0].Out == nil || a.In.Exec.IsCanceled() {
					continue
				}
				ev := env.eventsIn(i, a.In.Seq, a.Out.Seq)
				r := a.Children[0].Out.Res
				f := isFailure(s.Handle, r.Result, r.Error)
				wantFb := 0
				if f {
					wantFb = 1
				}
				if len(ev["fallback"]) != wantFb || len(ev["failure"]) != wantFb || len(ev["success"]) != 1-wantFb {
					return fmt.Sprintf("fallback %d on %s (failure=%v): OnFallbackExecuted x%d OnFailure x%d OnSuccess x%d", i, resStr(r), f, len(ev["fallback"]), len(ev["failure"]), len(ev["success"]))
				}
				if fv, fe := fbOutput(s, r.Result); f && (ev["fallback"][0].V != fv || ev["fallback"][0].E != fe) {
					return fmt.Sprintf("fallback %d: OnFallbackExecuted carries (%d,%v)", i, ev["fallback"][0].V, ev["fallback"][0].E)
				}
			}
		case KHedge:
			if env.hedgeAbove(i) {
				// applications of this layer overlap (one per attempt of the outer hedge): their OnHedge events
				// cannot be told apart by log position; the totals are compared instead
				fired, started := 0, 0
				for _, e := range env.Events {
					if e.Policy == i && e.Name == "hedge" {
						fired++
					}
				}
				open := false
				for _, a := range apps {
					open = open || a.Out == nil
					if a.Started > 0 {
						started += a.Started - 1
					}
				}
				if !open && fired != started {
					return fmt.Sprintf("hedge %d (inside another hedge): OnHedge x%d in all, %d hedge attempts were started in all", i, fired, started)
				}
				continue
			}
			nRetry := 0
			for _, x := range env.Stack {
				if x.Kind == KRetry {
					nRetry++
				}
			}
			retryDirectlyAbove := nRetry == 1 && i > 0 && env.Stack[i-1].Kind == KRetry && !env.hedgeAbove(i-1)
			for ai, a := range apps {
				if a.Out == nil {
					continue
				}
				if retryDirectlyAbove && !a.In.Exec.IsCanceled() {
					// what a hedge (its listener, its attempt) sees as the last result is the outcome of the
					// previous pass through the hedge policy, which the retry policy recorded
					wantV, wantE := 0, error(nil)
					if ai > 0 && apps[ai-1].Out != nil {
						wantV, wantE = apps[ai-1].Out.Res.Result, apps[ai-1].Out.Res.Error
					}
					for _, e := range env.eventsIn(i, a.In.Seq, a.Out.Seq)["hedge"] {
						if e.LastV != wantV || e.LastE != wantE {
							return fmt.Sprintf("hedge %d: OnHedge in pass %d carries last result (%d,%v), the previous pass ended with (%d,%v)", i, ai, e.LastV, e.LastE, wantV, wantE)
						}
					}
				}
				if got := len(env.eventsIn(i, a.In.Seq, a.Out.Seq)["hedge"]); got != a.Started-1 {
					return fmt.Sprintf("hedge %d: OnHedge x%d, %d hedge attempts were started", i, got, a.Started-1)
				}
			}
		case KCache:
			if env.hedgeAbove(i) {
				continue
			}
			for _, a := range apps {
				if a.Out == nil {
					continue
				}
				ev := env.eventsIn(i, a.In.Seq, a.Out.Seq)
				mc := env.Caches[i]
				hit := len(a.Children) == 0
				stored, looked := false, false
				for _, sq := range mc.SetSeq {
					stored = stored || (sq > a.In.Seq && sq < a.Out.Seq)
				}
				for _, sq := range mc.GetSeq {
					looked = looked || (sq > a.In.Seq && sq < a.Out.Seq)
				}
				noKey := !looked && !hit
				if hit && (len(ev["hit"]) != 1 || len(ev["miss"]) != 0 || len(ev["cached"]) != 0) {
					return fmt.Sprintf("cache %d hit: events %v", i, keys(ev))
				}
				if !hit && (len(ev["hit"]) != 0 || (len(ev["miss"]) != 1 && !noKey) || len(ev["miss"]) > 1) {
					return fmt.Sprintf("cache %d miss: events %v", i, keys(ev))
				}
				if (len(ev["cached"]) == 1) != stored || len(ev["cached"]) > 1 {
					return fmt.Sprintf("cache %d: OnResultCached x%d, stored=%v", i, len(ev["cached"]), stored)
				}
			}
		}
	}
	return ""
}

func keys(m map[string][]*Event) []string {
	var out []string
	for k, v := range m {
		out = append(out, fmt.Sprintf("%s x%d", k, len(v)))
	}
	sort.Strings(out)
	return out
}

// checkListenerLast: what the retry policy's OnRetriesExceeded / OnAbort listeners and the hedge policy's
// OnHedge listener see as the last result (C17: "LastResult and LastError seen by ... a listener").
func (env *Env) checkListenerLast() string {
	_, byLayer := env.Apps()
	nRetry := 0
	for _, x := range env.Stack {
		if x.Kind == KRetry {
			nRetry++
		}
	}
	for i, s := range env.Stack {
		apps := byLayer[i]
		switch s.Kind {
		case KRetry:
			if env.hedgeAbove(i) {
				continue
			}
			for _, a := range apps {
				if a.Out == nil || a.In.Exec.IsCanceled() || len(a.Children) == 0 {
					continue
				}
				last := a.Children[len(a.Children)-1].Out
				if last == nil {
					continue
				}
				ev := env.eventsIn(i, a.In.Seq, a.Out.Seq)
				for _, name := range []string{"exceeded", "abort"} {
					for _, e := range ev[name] {
						if e.LastV != last.Res.Result || e.LastE != last.Res.Error {
							return fmt.Sprintf("retry policy %d: %s listener sees last result (%d,%v), the last attempt returned %s", i, name, e.LastV, e.LastE, resStr(last.Res))
						}
					}
				}
			}
		case KHedge:
			if !(nRetry == 1 && i > 0 && env.Stack[i-1].Kind == KRetry && !env.hedgeAbove(i-1)) {
				continue
			}
			for ai, a := range apps {
				if a.Out == nil || a.In.Exec.IsCanceled() {
					continue
				}
				wantV, wantE := 0, error(nil)
				if ai > 0 && apps[ai-1].Out != nil {
					wantV, wantE = apps[ai-1].Out.Res.Result, apps[ai-1].Out.Res.Error
				}
				for _, e := range env.eventsIn(i, a.In.Seq, a.Out.Seq)["hedge"] {
					if e.LastV != wantV || e.LastE != wantE {
						return fmt.Sprintf("hedge %d: the OnHedge listener in pass %d sees last result (%d,%v), the previous pass ended with (%d,%v)", i, ai, e.LastV, e.LastE, wantV, wantE)
					}
				}
			}
		}
	}
	return ""
}

// checkStats: C17.
func (env *Env) checkStats() string {
	if msg := env.checkListenerLast(); msg != "" {
		return msg
	}
	hasHedge := false
	hasTimer := false // a Timeout: its listener reads the statistics from another goroutine while the execution goes on
	retryLayer := -1
	nRetryLayers := 0
	for i, s := range env.Stack {
		if s.Kind == KHedge {
			hasHedge = true
		}
		if s.Kind == KTimeout {
			hasTimer = true
		}
		if s.Kind == KRetry {
			retryLayer = i
			nRetryLayers++
		}
	}
	// markers: OnRetry events (a retry has started), OnHedge events (a hedge has started)
	count := func(name string, before int) int {
		n := 0
		for i := range env.Events {
			e := &env.Events[i]
			if e.Name == name && e.Policy >= 0 && (env.Stack[e.Policy].Kind == KRetry || env.Stack[e.Policy].Kind == KHedge) && e.Seq <= before {
				n++
			}
		}
		return n
	}
	completed := func(before int) int {
		n := 0
		for _, inv := range env.Invs {
			if inv.Returned && inv.SeqOut < before {
				n++
			}
		}
		return n
	}
	// the statistics are read one getter at a time between log positions seq0 and seq1; other
	// threads (hedge attempts) may start hedges and complete invocations in between, and a hedge
	// bumps the counters just before its OnHedge event is logged
	// ground truth for hedges: the attempts the hedge applications of this execution actually started
	// (goroutines spawned), whatever the OnHedge events say
	hedgesStarted := 0
	var allApps [][]*App
	if hasHedge {
		_, byLayer := env.Apps()
		allApps = byLayer
		for i, s := range env.Stack {
			if s.Kind == KHedge {
				for _, a := range byLayer[i] {
					if a.Started > 0 {
						hedgesStarted += a.Started - 1
					}
				}
			}
		}
	}
	at := func(what string, seq0, seq1, attempts, execs, retries, hedges int) string {
		r0, r1 := count("retry", seq0), count("retry", seq1)
		h0, h1 := count("hedge", seq0), count("hedge", seq1)
		if hasTimer && !hasHedge {
			r1++ // a timeout listener runs on the timer's goroutine: a retry bumps the counters just before its OnRetry event is logged
		}
		if hasHedge {
			h1++
			r1++
			if hedges > hedgesStarted {
				return fmt.Sprintf("%s: Hedges=%d, but only %d hedge attempts were started in the whole execution", what, hedges, hedgesStarted)
			}
		}
		if retries < r0 || retries > r1 || hedges < h0 || hedges > h1 || attempts < 1+r0+h0 || attempts > 1+r1+h1 {
			return fmt.Sprintf("%s: Attempts=%d Retries=%d Hedges=%d, but %d..%d retries and %d..%d hedges had been started", what, attempts, retries, hedges, r0, r1, h0, h1)
		}
		if !hasHedge && !hasTimer && attempts != 1+retries+hedges {
			return fmt.Sprintf("%s: Attempts=%d != 1 + Retries=%d + Hedges=%d", what, attempts, retries, hedges)
		}
		e0, e1 := completed(seq0), completed(seq1+1)
		if !hasHedge && (execs < e0 || execs > e1) {
			return fmt.Sprintf("%s: Executions=%d, %d function invocations had completed", what, execs, e0)
		}
		if hasHedge && execs > e1 {
			return fmt.Sprintf("%s: Executions=%d, only %d function invocations had completed", what, execs, e1)
		}
		return ""
	}
	var retryApps []*App
	if nRetryLayers == 1 && !env.hedgeAbove(retryLayer) {
		_, byLayer := env.Apps()
		retryApps = byLayer[retryLayer]
	}
	for k, inv := range env.Invs {
		if msg := at(fmt.Sprintf("invocation %d (entry)", k), inv.SeqIn, inv.SeqRead, inv.Attempts, inv.Executions, inv.Retries, inv.Hedges); msg != "" {
			return msg
		}
		if !hasHedge {
			if inv.IsFirst != (inv.Attempts == 1) || inv.IsRetry != (inv.Attempts > 1) {
				return fmt.Sprintf("invocation %d: IsFirstAttempt=%v IsRetry=%v with Attempts=%d", k, inv.IsFirst, inv.IsRetry, inv.Attempts)
			}
		} else {
			// the getters are read one at a time while hedges may start (rule 13): each flag must agree with some
			// attempt count between the one at the start and the one at the end of the reads
			lo := 1 + count("retry", inv.SeqIn) + count("hedge", inv.SeqIn)
			hi := 2 + count("retry", inv.SeqRead) + count("hedge", inv.SeqRead)
			if (inv.IsFirst && lo > 1) || (!inv.IsFirst && hi <= 1) || (inv.IsRetry && hi <= 1) || (!inv.IsRetry && lo > 1) {
				return fmt.Sprintf("invocation %d: IsFirstAttempt=%v IsRetry=%v with Attempts between %d and %d while they were read", k, inv.IsFirst, inv.IsRetry, lo, hi)
			}
		}
		if !hasHedge && inv.IsHedge {
			return fmt.Sprintf("invocation %d: IsHedge without a hedge policy", k)
		}
		if hasHedge {
			// an invocation is part of a hedge exactly when, on the way up, it passes through an attempt
			// of a hedge application other than that application's first
			var leaf *App
			for _, a := range allApps[len(env.Policies)] {
				if a.In.Thread == inv.Thread && a.In.Seq < inv.SeqIn && (a.Out == nil || inv.SeqIn < a.Out.Seq) {
					leaf = a
				}
			}
			want, known := false, leaf != nil
			for a := leaf; a != nil && a.Layer > 0; a = a.Parent {
				if a.Parent == nil {
					known = false
					break
				}
				if env.Stack[a.Layer-1].Kind == KHedge && a.Parent.Children[0] != a {
					want = true
				}
			}
			if known && inv.IsHedge != want {
				return fmt.Sprintf("invocation %d: IsHedge=%v, the invocation is part of a hedge attempt=%v (Attempts=%d Hedges=%d)", k, inv.IsHedge, want, inv.Attempts, inv.Hedges)
			}
		}
		if !hasHedge && inv.Returned && inv.ExecutionsAtExit != completed(inv.SeqOut) {
			return fmt.Sprintf("invocation %d (exit): Executions=%d, %d invocations had completed before it", k, inv.ExecutionsAtExit, completed(inv.SeqOut))
		}
		// last result seen by an attempt = outcome of the most recent completed attempt
		if len(retryApps) == 1 && !hasHedge && inv.Returned {
			// ... and still the same when the function returns, whatever happened to the attempt meanwhile
			// (a cancellation does not rewrite what the attempt was given; with no previous error LastError
			// may report the context's)
			a := retryApps[0]
			idx := -1
			for j, c := range a.Children {
				if c.In.Seq < inv.SeqIn {
					idx = j
				}
			}
			wantV, wantE := 0, error(nil)
			if idx > 0 && a.Children[idx-1].Out != nil {
				wantV, wantE = a.Children[idx-1].Out.Res.Result, a.Children[idx-1].Out.Res.Error
			}
			if idx >= 0 && (inv.LastVExit != wantV || (wantE != nil && inv.LastEExit != wantE) || (wantE == nil && inv.LastEExit != nil && !inv.CanceledAtEnd)) {
				return fmt.Sprintf("invocation %d (attempt %d) saw last result (%d,%v) when it returned (cancelled meanwhile: %v), the previous attempt ended with (%d,%v)", k, idx, inv.LastVExit, inv.LastEExit, inv.CanceledAtEnd, wantV, wantE)
			}
		}
		if len(retryApps) == 1 && !hasHedge && !inv.CanceledAtStart {
			a := retryApps[0]
			// which attempt of the retry layer is this invocation part of
			idx := -1
			for j, c := range a.Children {
				if c.In.Seq < inv.SeqIn {
					idx = j
				}
			}
			wantV, wantE := 0, error(nil)
			if idx > 0 && a.Children[idx-1].Out != nil {
				wantV, wantE = a.Children[idx-1].Out.Res.Result, a.Children[idx-1].Out.Res.Error
			}
			if idx >= 0 && (inv.LastV != wantV || inv.LastE != wantE) {
				return fmt.Sprintf("invocation %d (attempt %d) saw last result (%d,%v), the previous attempt ended with (%d,%v)", k, idx, inv.LastV, inv.LastE, wantV, wantE)
			}
		}
	}
	for i := range env.Events {
		e := &env.Events[i]
		if !e.HasStats {
			continue
		}
		if msg := at(fmt.Sprintf("event %s", e.String()), e.Seq0, e.Seq, e.Attempts, e.Executions, e.Retries, e.Hedges); msg != "" {
			return msg
		}
	}
	// at quiescence every completed invocation has been counted
	if len(env.Invs) > 0 {
		total := 0
		for _, inv := range env.Invs {
			if inv.Returned {
				total++
			}
		}
		if got := env.Invs[0].Exec.Executions(); got != total {
			return fmt.Sprintf("at quiescence Executions=%d, %d invocations completed", got, total)
		}
	}
	return ""
}
