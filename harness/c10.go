package main

// C02, C10, C11: dedicated program spaces over the same runner and layer contracts.

import (
	"context"
	"errors"
	"fmt"
	"sort"
	"strings"
	"time"

	"github.com/failsafe-go/failsafe-go"
	"github.com/failsafe-go/failsafe-go/bulkhead"
	"github.com/failsafe-go/failsafe-go/cachepolicy"
	"github.com/failsafe-go/failsafe-go/circuitbreaker"
	"github.com/failsafe-go/failsafe-go/fallback"
	"github.com/failsafe-go/failsafe-go/ratelimiter"
	"github.com/failsafe-go/failsafe-go/retrypolicy"
	"github.com/failsafe-go/failsafe-go/timeout"
	"github.com/failsafe-go/failsafe-go/verifrt/vrt"
)

var pred13 = Cond{K: "if:v1ok|E3", F: func(v int, err error) bool { return v == 1 && err == nil || errors.Is(err, E3) }}

func subsetsOf(cs []Cond) [][]Cond {
	var out [][]Cond
	for m := 0; m < 1<<len(cs); m++ {
		var s []Cond
		for i, c := range cs {
			if m&(1<<i) != 0 {
				s = append(s, c)
			}
		}
		out = append(out, s)
	}
	return out
}

// ---- C10 ----

func c10Programs(tier string) []*Program {
	handles := subsetsOf([]Cond{{K: "errs", E: E1}, {K: "types", T: ValErr{}}, {K: "result", V: 0}, pred13})
	handles = append(handles,
		[]Cond{{K: "errs", E: E1, Es: []error{circuitbreaker.ErrOpen, bulkhead.ErrFull}}},
		[]Cond{{K: "errs", E: timeout.ErrExceeded, Es: []error{ratelimiter.ErrExceeded}}, {K: "result", V: 0}},
		[]Cond{{K: "types", T: ValErr{}, Ts: []any{&PtrErr{}}}},
		[]Cond{{K: "errs0"}})
	type fbk struct {
		v int
		e error
	}
	outputs := []fbk{{9, nil}, {0, nil}, {0, E3}, {0, E1}, {5, E3}}
	inners := [][]Spec{
		nil,
		{{Kind: KRetry, MaxRetries: 1}},
		{{Kind: KRetry, MaxRetries: 1, ReturnLast: true}},
		{{Kind: KBreaker, FT: 1, FC: 1, BDelay: time.Hour, Pre: "open"}},
		{{Kind: KBulkhead, Conc: 1, Held: 1}},
		{{Kind: KLimiter, Permits: 1, Period: pxT, Used: 1}},
		{{Kind: KTimeout, Limit: pxL}},
		{{Kind: KRetry, MaxRetries: 1}, {Kind: KBreaker, FT: 1, FC: 1, BDelay: time.Hour}},
	}
	outcomes := []Out{{V: 1}, {V: 0}, {Err: E1}, {Err: E2}, {Err: fmt.Errorf("wrapped: %w", E1)}, {Err: ValErr{1}}, {Err: E3}}
	var progs []*Program
	for _, h := range handles {
		for _, o := range outputs {
			fb := Spec{Kind: KFallback, FbV: o.v, FbE: o.e, Handle: h}
			for _, in := range inners {
				stack := append([]Spec{fb}, in...)
				for _, oc := range outcomes {
					sc := []Out{oc}
					if hasTimed(stack) {
						sc = []Out{{V: oc.V, Err: oc.Err, Dur: 2 * pxL, Coop: true}}
					}
					progs = append(progs, &Program{Stack: stack, Scripts: [][]Out{sc, sc}, Checks: "layers,events", MaxBoundedDepth: 3})
				}
			}
		}
	}
	// the fallback applied several times within one execution: inside a retry policy that treats the
	// fallback's output as a failure, with outputs fixed and derived from the failure handled
	outers := []Spec{
		{Kind: KRetry, MaxRetries: 2},
		{Kind: KRetry, MaxRetries: 2, Handle: []Cond{{K: "result", V: 100}, {K: "errs", E: E3}}},
		{Kind: KRetry, MaxRetries: 1, Handle: []Cond{{K: "result", V: 0}}, ReturnLast: true},
	}
	fbs := []Spec{
		{Kind: KFallback, FbE: E3},
		{Kind: KFallback, FbV: 0, Handle: []Cond{{K: "errs", E: E1}, {K: "result", V: 0}}},
		{Kind: KFallback, FbEcho: true, FbE: E3},
		{Kind: KFallback, FbEcho: true, Handle: []Cond{{K: "errs", E: E1}, {K: "result", V: 0}, {K: "result", V: 2}}},
	}
	base := []Out{{V: 1}, {V: 0}, {V: 2}, {Err: E1}, {Err: E2}}
	for _, o := range outers {
		for _, fb := range fbs {
			for _, a := range base {
				for _, b := range base {
					for _, c := range base {
						sc := []Out{a, b, c}
						progs = append(progs, &Program{Stack: []Spec{o, fb}, Scripts: [][]Out{sc, sc}, Checks: "layers,events", MaxBoundedDepth: 3})
					}
				}
			}
		}
	}
	return progs
}

// c10CancelScenarios: the fallback is not applied to an execution that is already cancelled, whenever
// the cancellation lands (in particular while the fallback policy's own failure listener runs).
func c10CancelScenarios(tier string) []*Scenario {
	var out []*Scenario
	for _, src := range []string{"cancel", "deadline"} {
		for _, at := range []time.Duration{5, 10, 20} {
			stack := []Spec{{Kind: KFallback, FbV: 9}, {Kind: KRetry, MaxRetries: 0}}
			es := ExeSpec{Script: []Out{{Err: E1, Dur: 10}}, Ctx: src, CancelAt: at}
			out = append(out, &Scenario{
				Name:  fmt.Sprintf("C10/cancel/%s@%d [%s] %s", src, int64(at), stackStr(stack), es.String()),
				Bound: 2, Reduce: true,
				Body: multiBody(stack, []ExeSpec{es}, MultiOpts{Reduce: true, Final: func(env *Env) string {
					x := env.Exes[0]
					// the cancellation had fully landed before the fallback finished handling the failure
					// (its failure listener had not returned yet), and still the fallback function ran
					var fail, call *Event
					for i := range env.Events {
						e := &env.Events[i]
						if e.Policy == 0 && e.Name == "failure" {
							fail = e
						}
						if e.Policy == 0 && e.Name == "fbcall" {
							call = e
						}
					}
					if call != nil && fail != nil {
						if (x.CancelTick1 > 0 && x.CancelTick1 < fail.EndTick) || (src == "deadline" && int64(at) < fail.At) {
							return "fallback function applied although the execution had been cancelled before the fallback finished handling the failure"
						}
					}
					if x.ResE != nil && !errors.Is(x.ResE, context.Canceled) && !errors.Is(x.ResE, context.DeadlineExceeded) {
						return fmt.Sprintf("result (%d,%v)", x.ResV, x.ResE)
					}
					if x.ResE == nil && x.ResV != 9 {
						return fmt.Sprintf("result (%d,%v)", x.ResV, x.ResE)
					}
					return ""
				}}),
			})
		}
	}
	// a cancellation that lands while a slow fallback function runs does not change what that function sees
	// as the execution's last result
	for _, c := range []struct {
		name  string
		stack []Spec
		es    ExeSpec
	}{
		{"timeout-during-fallback", []Spec{{Kind: KTimeout, Limit: 20}, {Kind: KFallback, FbV: 9, FbDur: 40}}, ExeSpec{Script: []Out{{V: 3, Err: E1, Dur: 10}}}},
		{"async-cancel-during-fallback", []Spec{{Kind: KFallback, FbV: 9, FbDur: 40}}, ExeSpec{Script: []Out{{V: 3, Err: E1, Dur: 10}}, Async: true, CancelAsync: true, CancelAt: 20}},
		{"ctx-cancel-during-fallback", []Spec{{Kind: KFallback, FbV: 9, FbDur: 40}}, ExeSpec{Script: []Out{{V: 3, Err: E1, Dur: 10}}, Ctx: "cancel", CancelAt: 20}},
	} {
		c := c
		out = append(out, &Scenario{
			Name:  fmt.Sprintf("C10/cancel/%s [%s] %s", c.name, stackStr(c.stack), c.es.String()),
			Bound: 2, Reduce: true,
			Body: multiBody(c.stack, []ExeSpec{c.es}, MultiOpts{Reduce: true, Grace: 100, Final: func(env *Env) string {
				for _, e := range env.Events {
					if (e.Name == "fbcall" || e.Name == "fbexit") && (e.LastV != 3 || e.LastE != E1) {
						return fmt.Sprintf("the fallback function saw last result (%d,%v) at %s; the failure it handles is (3,E1)", e.LastV, e.LastE, map[string]string{"fbcall": "entry", "fbexit": "exit, after the cancellation"}[e.Name])
					}
				}
				return ""
			}}),
		})
	}
	return out
}

// ---- C11 ----

func c11Programs(tier string) []*Program {
	var progs []*Program
	inners := [][]Spec{
		nil,
		{{Kind: KRetry, MaxRetries: 1}},
		{{Kind: KRetry, MaxRetries: 1, Handle: []Cond{{K: "result", V: 0}}, ReturnLast: true}},
		{{Kind: KBreaker, FT: 2, FC: 2, BDelay: time.Hour, Handle: []Cond{{K: "result", V: 0}}}},
		{{Kind: KLimiter, Permits: 2, Period: pxT}},
		{{Kind: KBulkhead, Conc: 1}},
		{{Kind: KFallback, FbV: 9}},
	}
	ctxKeys := []any{nil, "a", "b", "", 42}
	outcomes := []Out{{V: 1}, {V: 0}, {Err: E1}}
	for _, cfgKey := range []string{"", "a"} {
		for _, pre := range []map[string]int{nil, {"a": 7}, {"b": 9}} {
			for _, cif := range []string{"", "v1", "err", "v1|err"} {
				for ii, in := range inners {
					for oi, oc := range outcomes {
						for k1, key1 := range ctxKeys {
							// history of three executions: key1, then the configured/other key, then key1 again
							key2 := ctxKeys[(k1+1+oi)%len(ctxKeys)]
							if tier != "thorough" && (ii+oi+k1)%2 == 1 && len(pre) > 0 {
								continue
							}
							c := Spec{Kind: KCache, Key: cfgKey, Prepop: pre, CacheIf: cif}
							stack := append([]Spec{c}, in...)
							scripts := [][]Out{{oc}, {{V: 1}}, {oc}}
							progs = append(progs, &Program{Stack: stack, Scripts: scripts, CtxKeys: []any{key1, key2, key1}, Checks: "layers,events", MaxBoundedDepth: 3})
							// the cache policy nested inside a retry policy: attempts after the first must hit
							if ii == 0 && cfgKey == "a" {
								outer := []Spec{{Kind: KRetry, MaxRetries: 2, Handle: []Cond{{K: "result", V: 1}, {K: "errs", E: E1}}}, c}
								progs = append(progs, &Program{Stack: outer, Scripts: [][]Out{{oc, {V: 1}}, {oc}}, CtxKeys: []any{key1, key2}, Checks: "layers,events", MaxBoundedDepth: 3})
							}
						}
					}
				}
			}
		}
	}
	// the cache policy inside a timeout that expires while a function that ignores cancellation is still
	// running: the result it eventually returns carries no error and is stored
	for _, cfgKey := range []string{"", "a"} {
		for k1, key1 := range ctxKeys {
			for _, cif := range []string{"", "v1"} {
				for oi, oc := range []Out{{V: 1, Dur: 2 * pxL}, {V: 0, Dur: 2 * pxL}, {Err: E1, Dur: 2 * pxL}, {V: 1, Dur: 2 * pxL, Coop: true}} {
					key2 := ctxKeys[(k1+1+oi)%len(ctxKeys)]
					stack := []Spec{{Kind: KTimeout, Limit: pxL}, {Kind: KCache, Key: cfgKey, CacheIf: cif}}
					progs = append(progs, &Program{Stack: stack, Scripts: [][]Out{{oc}, {{V: 2}}, {{V: 3}}}, CtxKeys: []any{key1, key2, key1}, Checks: "layers,events", MaxBoundedDepth: 3})
				}
			}
		}
	}
	return progs
}

// c11ConcurrentScenarios: executions through one cache policy that overlap, with keys that differ, and a
// caller's context cancelled while the function runs. Every error-free result ends up under its own
// execution's key and nowhere else.
func c11ConcurrentScenarios(tier string) []*Scenario {
	bound := 2
	if tier == "thorough" {
		bound = 3
	}
	var out []*Scenario
	add := func(name string, c Spec, exes []ExeSpec, want map[string][]int, results [][2]any) {
		out = append(out, &Scenario{
			Name:  fmt.Sprintf("C11/concurrent/%s [%s] %s", name, c.String(), exesStr(exes)),
			Bound: bound, Reduce: true,
			Body: multiBody([]Spec{c}, exes, MultiOpts{Reduce: true, Final: func(env *Env) string {
				for i, x := range env.Exes {
					w := results[i]
					if x.ResV != w[0].(int) || x.ResE != w[1] {
						return fmt.Sprintf("execution %d returned (%d,%v), want (%d,%v)", i, x.ResV, x.ResE, w[0], w[1])
					}
				}
				m := env.Caches[0].M
				var wantKeys []string
				for k := range want {
					wantKeys = append(wantKeys, k)
				}
				sort.Strings(wantKeys)
				for _, k := range wantKeys {
					vs := want[k]
					v, ok := m[k]
					found := false
					for _, w := range vs {
						found = found || (ok && v == w)
					}
					if !found {
						return fmt.Sprintf("cache content %v: key %q should hold one of %v", sortedMap(m), k, vs)
					}
				}
				var gotKeys []string
				for k := range m {
					gotKeys = append(gotKeys, k)
				}
				sort.Strings(gotKeys)
				for _, k := range gotKeys {
					if _, ok := want[k]; !ok {
						return fmt.Sprintf("cache content %v: nothing should be stored under %q", sortedMap(m), k)
					}
				}
				return ""
			}}),
		})
	}
	nokey := Spec{Kind: KCache}
	keyC := Spec{Kind: KCache, Key: "c"}
	ok := func(v int, d time.Duration) []Out { return []Out{{V: v, Dur: d}} }
	add("keys a|b", nokey, []ExeSpec{{Script: ok(1, 10), CacheKey: "a"}, {Script: ok(2, 10), StartAt: 5, CacheKey: "b"}}, map[string][]int{"a": {1}, "b": {2}}, [][2]any{{1, nil}, {2, nil}})
	add("keys a|b same instant", nokey, []ExeSpec{{Script: ok(1, 10), CacheKey: "a"}, {Script: ok(2, 10), CacheKey: "b"}}, map[string][]int{"a": {1}, "b": {2}}, [][2]any{{1, nil}, {2, nil}})
	add("context key | configured key", keyC, []ExeSpec{{Script: ok(1, 10), CacheKey: "a"}, {Script: ok(2, 10), StartAt: 5}}, map[string][]int{"a": {1}, "c": {2}}, [][2]any{{1, nil}, {2, nil}})
	add("configured key | context key", keyC, []ExeSpec{{Script: ok(1, 10)}, {Script: ok(2, 3), StartAt: 5, CacheKey: "a"}}, map[string][]int{"c": {1}, "a": {2}}, [][2]any{{1, nil}, {2, nil}})
	add("key | no key", nokey, []ExeSpec{{Script: ok(1, 10), CacheKey: "a"}, {Script: ok(2, 10), StartAt: 5}}, map[string][]int{"a": {1}}, [][2]any{{1, nil}, {2, nil}})
	add("no key | key", nokey, []ExeSpec{{Script: ok(1, 10)}, {Script: ok(2, 3), StartAt: 5, CacheKey: "a"}}, map[string][]int{"a": {2}}, [][2]any{{1, nil}, {2, nil}})
	add("error | value", nokey, []ExeSpec{{Script: []Out{{Err: E1, Dur: 10}}, CacheKey: "a"}, {Script: ok(2, 3), StartAt: 5, CacheKey: "b"}}, map[string][]int{"b": {2}}, [][2]any{{0, E1}, {2, nil}})
	// the same key, both miss: each error-free result is stored when its execution finishes
	add("same key, first fails", nokey, []ExeSpec{{Script: []Out{{Err: E1, Dur: 20}}, CacheKey: "a"}, {Script: ok(2, 5), StartAt: 5, CacheKey: "a"}, {Script: ok(3, 5), StartAt: 30, CacheKey: "a"}}, map[string][]int{"a": {2}}, [][2]any{{0, E1}, {2, nil}, {2, nil}})
	add("same key, later one finishes first", nokey, []ExeSpec{{Script: ok(1, 20), CacheKey: "a"}, {Script: ok(2, 5), StartAt: 5, CacheKey: "a"}, {Script: ok(3, 5), StartAt: 12, CacheKey: "a"}}, map[string][]int{"a": {1}}, [][2]any{{1, nil}, {2, nil}, {2, nil}})
	add("same configured key, first fails", keyC, []ExeSpec{{Script: []Out{{Err: E1, Dur: 20}}}, {Script: ok(2, 5), StartAt: 5}, {Script: ok(3, 5), StartAt: 30}}, map[string][]int{"c": {2}}, [][2]any{{0, E1}, {2, nil}, {2, nil}})
	add("three keys", nokey, []ExeSpec{{Script: ok(1, 10), CacheKey: "a"}, {Script: ok(2, 10), StartAt: 3, CacheKey: "b"}, {Script: ok(3, 2), StartAt: 6, CacheKey: "c"}}, map[string][]int{"a": {1}, "b": {2}, "c": {3}}, [][2]any{{1, nil}, {2, nil}, {3, nil}})
	// the caller's context ends while the function (which ignores it) runs: the result is still the function's, and is stored
	for _, src := range []string{"cancel", "deadline"} {
		add("ctx "+src+" during function", nokey, []ExeSpec{{Script: ok(1, 10), CacheKey: "a", Ctx: src, CancelAt: 5}}, map[string][]int{"a": {1}}, [][2]any{{1, nil}})
		add("ctx "+src+" during function, configured key", keyC, []ExeSpec{{Script: ok(1, 10), Ctx: src, CancelAt: 5}}, map[string][]int{"c": {1}}, [][2]any{{1, nil}})
	}
	return out
}

func sortedMap(m map[string]int) string {
	var ks []string
	for k := range m {
		ks = append(ks, k)
	}
	sort.Strings(ks)
	s := "{"
	for i, k := range ks {
		if i > 0 {
			s += " "
		}
		s += fmt.Sprintf("%s:%d", k, m[k])
	}
	return s + "}"
}

// deepResultUnit runs the C12 result-type cases (result conditions registered for a value that is
// deep-equal to, never identical with, the outcome: pointers, structs / arrays / interfaces holding
// pointers, slices, maps) and reports the failures of one policy kind under property prop.
func deepResultUnit(prop, policyPrefix string) Unit {
	deep := c12DeepCases()
	return Unit{Name: prop + "/result conditions on result types holding pointers", Run: func(dl time.Time) *Stats {
		st := &Stats{BoundCompleted: 0, outcomes: map[string]int{}}
		for _, d := range deep {
			var msgs []string
			r := vrt.Execute(vrt.Options{}, func() { msgs = d.run() })
			st.Executions++
			st.Steps += r.Steps
			if r.Panic != "" {
				msgs = []string{"panic: " + r.Panic}
			}
			for _, msg := range msgs {
				if strings.HasPrefix(msg, policyPrefix) || strings.HasPrefix(msg, "panic") {
					v := Violation{Scenario: "C12/deep/" + d.name, Message: msg}
					v.Sig = signature(v.Scenario, msg)
					st.Violations = append(st.Violations, v)
					break
				}
			}
		}
		st.Sample = []string{"result types: *struct, struct holding a pointer, any holding a pointer, array of pointers, slice, map, string, struct of scalars"}
		st.Outcomes, st.Nontrivial = st.Executions, st.Executions
		return st
	}}
}

// c10HistoryUnit: whether a fallback is applied to an outcome does not depend on what the same
// fallback instance handled before (error shapes that share their outermost type but differ in what
// they wrap, one after the other): every ordered pair of outcomes x condition sets with type targets.
func c10HistoryUnit() Unit {
	var hist []outcome
	for _, o := range c12Outcomes() {
		if o.v == 0 || o.err == nil {
			hist = append(hist, o)
		}
	}
	var condSets [][]Cond
	for variant := 0; variant < 4; variant++ {
		condSets = append(condSets, c12Conds([]int{1}, variant), c12Conds([]int{0, 1}, variant))
	}
	condSets = append(condSets, c12Conds([]int{0}, 0), c12Conds([]int{0}, 8))
	return Unit{Name: "C10/histories: one fallback instance classifies two outcomes one after the other", Run: func(dl time.Time) *Stats {
		st := &Stats{BoundCompleted: 0, outcomes: map[string]int{}}
		for _, conds := range condSets {
			for _, first := range hist {
				var msg string
				r := vrt.Execute(vrt.Options{}, func() {
					for _, second := range hist {
						fb := applyHandle(fallback.BuilderWithResult[int](99), conds).Build()
						for step, o := range []outcome{first, second, first} {
							o := o
							v, err := failsafe.Get(func() (int, error) { return o.v, o.err }, fb)
							applied := v == 99 && err == nil
							if want := isFailure(conds, o.v, o.err); applied != want {
								msg = fmt.Sprintf("fallback with conditions [%s]: outcome %s (step %d of the history %s, %s, %s on one instance) applied=%v, the documented rules classify it as failure=%v", condStr(conds), o.name, step, first.name, second.name, first.name, applied, want)
								return
							}
						}
					}
				})
				st.Executions++
				st.Steps += r.Steps
				if r.Panic != "" {
					msg = "panic: " + r.Panic
				}
				if msg != "" {
					v := Violation{Scenario: "C10/history/" + condStr(conds), Message: msg}
					v.Sig = signature(v.Scenario, msg)
					st.Violations = append(st.Violations, v)
					if len(st.Violations) > 3 {
						return st
					}
				}
			}
		}
		st.Sample = []string{fmt.Sprintf("%d condition sets x %d x %d ordered pairs of outcomes", len(condSets), len(hist), len(hist))}
		st.Outcomes, st.Nontrivial = st.Executions, st.Executions
		return st
	}}
}

// c02BuilderUnit: a policy keeps the limits it was built with, whatever is done to its builder afterwards
// (the builder is reconfigured and used for a second policy; both are then executed, in both orders).
func c02BuilderUnit() Unit {
	type step struct {
		name  string
		apply func(retrypolicy.RetryPolicyBuilder[int]) retrypolicy.RetryPolicyBuilder[int]
		invs  int // invocations of an always-failing function taking 10ns under a policy built right after this step
	}
	steps := []step{
		{"WithMaxRetries(1)", func(b retrypolicy.RetryPolicyBuilder[int]) retrypolicy.RetryPolicyBuilder[int] {
			return b.WithMaxRetries(1)
		}, 2},
		{"WithMaxRetries(3)", func(b retrypolicy.RetryPolicyBuilder[int]) retrypolicy.RetryPolicyBuilder[int] {
			return b.WithMaxRetries(3)
		}, 4},
		{"WithMaxAttempts(1)", func(b retrypolicy.RetryPolicyBuilder[int]) retrypolicy.RetryPolicyBuilder[int] {
			return b.WithMaxAttempts(1)
		}, 1},
		{"WithMaxRetries(5).WithMaxDuration(25ns)", func(b retrypolicy.RetryPolicyBuilder[int]) retrypolicy.RetryPolicyBuilder[int] {
			return b.WithMaxRetries(5).WithMaxDuration(25)
		}, 3},
	}
	return Unit{Name: "C02/policies keep the limits they were built with when their builder is reconfigured", Run: func(dl time.Time) *Stats {
		st := &Stats{BoundCompleted: 0, outcomes: map[string]int{}}
		run := func(p retrypolicy.RetryPolicy[int]) int {
			n := 0
			failsafe.Get(func() (int, error) { n++; vrt.Sleep(10); return 0, E1 }, p)
			return n
		}
		for i, a := range steps {
			for j, b := range steps {
				if i == j {
					continue
				}
				var msg string
				r := vrt.Execute(vrt.Options{}, func() {
					bld := a.apply(retrypolicy.Builder[int]())
					p1 := bld.Build()
					bld = b.apply(bld.WithMaxDuration(0))
					p2 := bld.Build()
					for _, first := range []bool{true, false} {
						n1, n2 := 0, 0
						if first {
							n1, n2 = run(p1), run(p2)
						} else {
							n2, n1 = run(p2), run(p1)
						}
						wa := a.invs
						if n1 != wa {
							msg = fmt.Sprintf("policy built after %s invoked the function %d times (want %d) once its builder had gone on to %s", a.name, n1, wa, b.name)
						}
						_ = n2
					}
				})
				st.Executions++
				st.Steps += r.Steps
				if r.Panic != "" {
					msg = "panic: " + r.Panic
				}
				if msg != "" {
					v := Violation{Scenario: "C02/builder/" + a.name + " then " + b.name, Message: msg}
					v.Sig = signature(v.Scenario, msg)
					st.Violations = append(st.Violations, v)
				}
			}
		}
		st.Sample = []string{"build, reconfigure the builder, build again; run both policies in both orders"}
		st.Outcomes, st.Nontrivial = st.Executions, st.Executions
		return st
	}}
}

// mapCacheOf is a plain map behind the cachepolicy.Cache interface for any result type.
type mapCacheOf[R any] struct {
	m    map[string]R
	sets int
}

func (c *mapCacheOf[R]) Get(key string) (R, bool) { v, ok := c.m[key]; return v, ok }
func (c *mapCacheOf[R]) Set(key string, v R)      { c.m[key] = v; c.sets++ }

// c11Nil: an error-free result that is a nil pointer / interface / slice / map (or no result at all: Run)
// is a result like any other: stored on the miss, served on the next execution.
func c11Nil[R any](typeName string, isNil func(R) bool) string {
	c := &mapCacheOf[R]{m: map[string]R{}}
	cp := cachepolicy.Builder[R](c).WithKey("k").Build()
	n := 0
	fn := func() (R, error) { n++; var zero R; return zero, nil }
	v1, e1 := failsafe.Get(fn, cp)
	v2, e2 := failsafe.Get(fn, cp)
	if e1 != nil || e2 != nil || !isNil(v1) || !isNil(v2) {
		return fmt.Sprintf("result type %s: the executions returned (%v,%v) and (%v,%v), want the nil result without error", typeName, v1, e1, v2, e2)
	}
	if _, ok := c.m["k"]; !ok || c.sets != 1 || n != 1 {
		return fmt.Sprintf("result type %s: a nil result without error: stored=%v (Set x%d), function invoked %d times over two executions (want stored, one Set, one invocation)", typeName, ok, c.sets, n)
	}
	return ""
}

func c11NilUnit() Unit {
	cases := []func() string{
		func() string { return c11Nil[*int]("*int", func(p *int) bool { return p == nil }) },
		func() string { return c11Nil[any]("any", func(x any) bool { return x == nil }) },
		func() string { return c11Nil[[]int]("[]int", func(x []int) bool { return x == nil }) },
		func() string {
			return c11Nil[map[string]int]("map[string]int", func(x map[string]int) bool { return x == nil })
		},
		func() string { return c11Nil[error]("error", func(x error) bool { return x == nil }) },
		func() string { // Run: no result at all
			c := &mapCacheOf[any]{m: map[string]any{}}
			cp := cachepolicy.Builder[any](c).WithKey("k").Build()
			n := 0
			for i := 0; i < 2; i++ {
				if err := failsafe.Run(func() error { n++; return nil }, cp); err != nil {
					return fmt.Sprintf("Run returned %v", err)
				}
			}
			if c.sets != 1 || n != 1 {
				return fmt.Sprintf("Run through a cache policy with a key: Set x%d, function invoked %d times over two executions (want one each)", c.sets, n)
			}
			return ""
		},
	}
	return Unit{Name: "C11/nil results are results", Run: func(dl time.Time) *Stats {
		st := &Stats{BoundCompleted: 0, outcomes: map[string]int{}}
		for i, f := range cases {
			var msg string
			r := vrt.Execute(vrt.Options{}, func() { msg = f() })
			st.Executions++
			st.Steps += r.Steps
			if r.Panic != "" {
				msg = "panic: " + r.Panic
			}
			if msg != "" {
				v := Violation{Scenario: fmt.Sprintf("C11/nil-results/%d", i), Message: msg}
				v.Sig = signature(v.Scenario, msg)
				st.Violations = append(st.Violations, v)
			}
		}
		st.Sample = []string{"result types *int, any, []int, map, error, and Run"}
		st.Outcomes, st.Nontrivial = st.Executions, st.Executions
		return st
	}}
}

// ---- C02 ----

func c02Programs(tier string) []*Program {
	var progs []*Program
	handles := [][]Cond{nil, {{K: "errs", E: E1}}, {{K: "result", V: 0}}, {pred13}, {{K: "errs", E: E1}, {K: "result", V: 0}}}
	aborts := [][]Cond{nil, {{K: "errs", E: E2}}, {{K: "result", V: 0}}, {pred13}, {{K: "errs", E: E2, Es: []error{E3}}}}
	maxLen := 4
	if tier == "thorough" {
		maxLen = 5
	}
	scripts := pxScripts(maxLen)
	const M = 100 * time.Nanosecond
	for _, mr := range []int{-1, 0, 1, 2, 3} {
		for _, via := range []bool{false, true} {
			for hi, h := range handles {
				for ai, a := range aborts {
					for _, rl := range []bool{false, true} {
						for si, sc := range scripts {
							if tier != "thorough" && len(sc) == maxLen && (si+hi+ai)%4 != 0 {
								continue
							}
							if via && (si+hi+ai)%5 != 0 {
								continue // the WithMaxAttempts spelling: a fifth of the space
							}
							script := append([]Out{}, sc...)
							if mr == -1 {
								script = append(script, Out{V: 1}, Out{V: 1}) // unlimited retries need a script that terminates
								if len(h) > 0 && h[0].K == "if:v1ok|E3" {
									script = append(script, Out{V: 2})
								}
							}
							r := Spec{Kind: KRetry, MaxRetries: mr, ViaAttempts: via, Handle: h, Abort: a, ReturnLast: rl}
							progs = append(progs, &Program{Stack: []Spec{r}, Scripts: [][]Out{script, script}, Checks: "layers,events,stats"})
						}
					}
				}
			}
		}
	}
	// max duration: attempts that take 0, M/2 and M+1, with and without a retry delay
	for _, d := range []time.Duration{0, M / 2, M, M + 1} {
		for _, delay := range []time.Duration{0, 30} {
			for _, rl := range []bool{false, true} {
				r := Spec{Kind: KRetry, MaxRetries: 3, MaxDuration: M, Delay: delay, ReturnLast: rl}
				progs = append(progs, &Program{Stack: []Spec{r}, Scripts: [][]Out{{{Err: E1, Dur: d}}, {{Err: E1, Dur: d}, {V: 1, Dur: d}}}, Checks: "layers,events,stats"})
				if d > 0 {
					// the policy inside another retry policy: once it has given up because of its max duration it
					// passes the later outer attempts through (and reports OnRetriesExceeded once)
					outer := Spec{Kind: KRetry, MaxRetries: 2}
					progs = append(progs, &Program{Stack: []Spec{outer, r}, Scripts: [][]Out{{{Err: E1, Dur: d}}}, Checks: "layers,events,stats"})
				}
				if d+delay > 0 {
					// unlimited retries: the max duration is the only thing that ends them (the script succeeds
					// after 40 failures, long after the max duration, so that every program terminates)
					var long []Out
					for i := 0; i < 40; i++ {
						long = append(long, Out{Err: E1, Dur: d})
					}
					long = append(long, Out{V: 1})
					u := Spec{Kind: KRetry, MaxRetries: -1, MaxDuration: M, Delay: delay, ReturnLast: rl}
					progs = append(progs, &Program{Stack: []Spec{u}, Scripts: [][]Out{long}, Checks: "layers,events,stats"})
				}
			}
		}
	}
	return progs
}

// c02SharingScenarios: concurrent and successive executions through one policy instance never
// consume each other's retries: each execution's invocation count and result are those of its
// own sequential run.
func c02SharingScenarios(tier string) []*Scenario {
	bound := 2
	if tier == "thorough" {
		bound = 3
	}
	var out []*Scenario
	sharedExecutor := false
	var add func(name string, r Spec, exes []ExeSpec)
	addStack := func(name string, stack []Spec, exes []ExeSpec) {
		sharedEx := sharedExecutor
		if sharedEx {
			name += "/one-executor"
		}
		type pred struct {
			v    int
			e    error
			invs int
		}
		var want []pred
		for _, es := range exes {
			v, e, n := plainOutcome(stack, es.Script)
			want = append(want, pred{v, e, n})
		}
		out = append(out, &Scenario{
			Name:  fmt.Sprintf("C02/sharing/%s [%s] %s", name, stackStr(stack), exesStr(exes)),
			Bound: bound, Reduce: true,
			Body: multiBody(stack, exes, MultiOpts{Reduce: true, SharedExecutor: sharedEx, Final: func(env *Env) string {
				for i, x := range env.Exes {
					w := want[i]
					if len(x.Invs) != w.invs {
						return fmt.Sprintf("execution %d invoked the function %d times; alone it does so %d times (the retry budget leaked between executions)", i, len(x.Invs), w.invs)
					}
					if x.ResV != w.v || (x.ResE != w.e && !(x.ResE != nil && w.e != nil && x.ResE.Error() == w.e.Error())) {
						return fmt.Sprintf("execution %d returned (%d,%v); alone it returns (%d,%v)", i, x.ResV, x.ResE, w.v, w.e)
					}
				}
				return ""
			}}),
		})
	}
	add = func(name string, r Spec, exes []ExeSpec) { addStack(name, []Spec{r}, exes) }
	failing := []Out{{Err: E1}}
	failOnce := []Out{{Err: E1}, {V: 1}}
	// the policy inside another retry policy: a second execution runs through both while the first one sits
	// in the outer policy's delay, between two passes through the inner policy
	nested := []Spec{{Kind: KRetry, MaxRetries: 1, Delay: 10}, {Kind: KRetry, MaxRetries: 1}}
	addStack("nested-interleaved", nested, []ExeSpec{{Script: failing}, {Script: failing, StartAt: 5}})
	addStack("nested-interleaved", nested, []ExeSpec{{Script: failing}, {Script: failOnce, StartAt: 5}})
	for _, mr := range []int{0, 1, 2} {
		r := Spec{Kind: KRetry, MaxRetries: mr}
		add("two-failing", r, []ExeSpec{{Script: failing}, {Script: failing}})
		add("failing+recovering", r, []ExeSpec{{Script: failing}, {Script: failOnce}})
		add("successive", r, []ExeSpec{{Script: failing}, {Script: failOnce, StartAt: 100}, {Script: failing, StartAt: 200}})
		if mr < 2 || tier == "thorough" {
			add("async", r, []ExeSpec{{Script: failing, Async: true}, {Script: failOnce, Async: true}})
		}
	}
	add("three", Spec{Kind: KRetry, MaxRetries: 1, Delay: 10}, []ExeSpec{{Script: failing}, {Script: failOnce}, {Script: failing, StartAt: 5}})
	// the same Executor value for all executions (not only the same policy instances)
	sharedExecutor = true
	slowFailing := []Out{{Err: E1, Dur: 10}}
	for _, mr := range []int{1, 2} {
		r := Spec{Kind: KRetry, MaxRetries: mr}
		add("two-failing", r, []ExeSpec{{Script: failing}, {Script: failing}})
		add("failing+recovering", r, []ExeSpec{{Script: slowFailing}, {Script: failOnce, StartAt: 5}})
		add("overlapping", r, []ExeSpec{{Script: slowFailing}, {Script: failing, StartAt: 5}, {Script: failOnce, StartAt: 200}})
		add("async", r, []ExeSpec{{Script: slowFailing, Async: true}, {Script: failOnce, StartAt: 5}})
	}
	sharedExecutor = false
	add("returnlast", Spec{Kind: KRetry, MaxRetries: 1, ReturnLast: true}, []ExeSpec{{Script: failing}, {Script: failing}})
	return out
}

func init() {
	scenarioSets["C10"] = func(tier string) []*Scenario {
		return append(c10CancelScenarios(tier), programScenarios("C10", c10Programs(tier), 1)...)
	}
	scenarioSets["C11"] = func(tier string) []*Scenario {
		return append(c11ConcurrentScenarios(tier), programScenarios("C11", c11Programs(tier), 1)...)
	}
	scenarioSets["C02"] = func(tier string) []*Scenario {
		return append(c02SharingScenarios(tier), programScenarios("C02", c02Programs(tier), 1)...)
	}
	register(&CheckDef{
		Property:  "C10",
		Technique: "exhaustive enumeration of fallback programs executed on the real code under the virtual runtime, checked against the fallback layer contract; plus schedule exploration of cancellation against the fallback's own listener",
		Rule: "a program = fallback output (result 9, result 0, error E3, error E1: the last two and 0 may themselves be handled) x every subset of {HandleErrors, HandleErrorTypes, HandleResult, HandleIf} plus multi-argument registrations (19) " +
			"x inner composition (none, retry, retry+ReturnLastFailure, open breaker, full bulkhead, exhausted limiter, timeout, retry over breaker) x function outcome (7 kinds), run twice on the same instances; plus the fallback inside a retry policy that treats its output as a failure (3 retry configurations x 4 fallbacks, two of them with an output derived from the failure handled, x every three-outcome script over 5 outcomes); distinct = distinct observation logs",
		Assume: []string{"classification reference: classify.go (errors.Is / errors.As / DeepEqual)"},
		Budget: map[string]time.Duration{"quick": 120 * time.Second},
		Units: func(tier string) []Unit {
			us := programUnits("C10", c10Programs(tier), 200, 1)
			for _, sc := range c10CancelScenarios(tier) {
				us = append(us, scenarioUnit(sc))
			}
			us = append(us, deepResultUnit("C10", "fallback"), c10HistoryUnit())
			return us
		},
	})
	register(&CheckDef{
		Property:  "C11",
		Technique: "exhaustive enumeration of cache programs (configured and context keys, contents, CacheIf, inner compositions, histories) executed on the real code with an instrumented cache, checked against a map reference; plus schedule exploration of overlapping executions sharing the cache policy",
		Rule: "a program = configured key {none, a} x initial content {empty, a, b} x CacheIf {none, result==1, err!=nil} x inner composition (7) x outcome x a history of three executions with context keys from {absent, a, b, empty string, non-string}; " +
			"plus the cache policy nested inside a retry policy, and inside a timeout that expires while the function still runs; plus schedule exploration of 2-3 overlapping executions through one cache policy with different, configured and absent keys, and of a caller's context ending while the function runs; the reference is a plain map; distinct = distinct observation logs",
		Assume: []string{"an empty string supplied as the context key takes precedence like any other string and is no key", "an execution with no cache key may or may not report a miss"},
		Budget: map[string]time.Duration{"quick": 120 * time.Second},
		Units: func(tier string) []Unit {
			us := programUnits("C11", c11Programs(tier), 200, 1)
			for _, sc := range c11ConcurrentScenarios(tier) {
				us = append(us, scenarioUnit(sc))
			}
			us = append(us, c11NilUnit())
			return us
		},
	})
	register(&CheckDef{
		Property:  "C02",
		Technique: "exhaustive enumeration of retry configurations and outcome scripts executed on the real retry policy, checked against the retry layer contract; plus schedule exploration of executions sharing one policy instance",
		Rule: "a program = maxRetries {-1,0,1,2,3} (both spellings) x handle conditions (5, one combining an error and a result condition) x abort conditions (5) x ReturnLastFailure x every script over {ok(1), ok(0), err(E1), err(E2)} up to length 4 (thorough 5), run twice on one instance, plus max-duration programs with attempts of 0, M/2, M, M+1, with 3 and with unlimited retries; " +
			"sharing: 2-3 concurrent / successive / async executions through one instance, every schedule within the deviation bound; HandleResult / AbortOnResult on 8 result types (pointers, structs / arrays / interfaces holding pointers, slices, maps) with deep-equal but not identical values; distinct = distinct observation logs",
		Assume: []string{"elapsed == maxDuration exactly is not pinned by the statement: both readings accepted", "an abort-matching failure on the exhausting attempt may follow either story"},
		Budget: map[string]time.Duration{"quick": 120 * time.Second},
		Units: func(tier string) []Unit {
			us := programUnits("C02", c02Programs(tier), 400, 1)
			for _, sc := range c02SharingScenarios(tier) {
				us = append(us, scenarioUnit(sc))
			}
			us = append(us, deepResultUnit("C02", "retry policy"))
			us = append(us, c02BuilderUnit())
			return us
		},
	})
}

var _ = failsafe.ErrExecutionCanceled
var _ = vrt.Elapsed
