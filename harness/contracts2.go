package main

// Layer contracts for retry, fallback, cache, breaker, limiter and bulkhead, and the verdict
// (success / failure) propagation. Together with the timeout and hedge contracts they spell out
// "the nesting P1(P2(...Pn(fn))) of the individual policies' documented behaviours" (C01).

import (
	"errors"
	"fmt"
	"sort"

	"github.com/failsafe-go/failsafe-go/bulkhead"
	"github.com/failsafe-go/failsafe-go/cachepolicy"
	"github.com/failsafe-go/failsafe-go/circuitbreaker"
	"github.com/failsafe-go/failsafe-go/common"
	"github.com/failsafe-go/failsafe-go/ratelimiter"
	"github.com/failsafe-go/failsafe-go/retrypolicy"
	"github.com/failsafe-go/failsafe-go/timeout"
)

// RefState is the reference state of the stateful policies of a stack, carried across the
// executions of a history.
type RefState struct {
	Breakers map[int]*cbModel
	Limiters map[int]*rlModel
	Caches   map[int]map[string]int
	Unsynced map[int]bool // reference no longer follows this policy instance
	// per execution
	retryFailed    map[int]int
	retryExhausted map[int]bool
	retryAmbiguous map[int]bool // an application was cancelled around a failure: whether the policy counted it is not observable
}

func NewRefState(stack []Spec) *RefState {
	rs := &RefState{Breakers: map[int]*cbModel{}, Limiters: map[int]*rlModel{}, Caches: map[int]map[string]int{}, Unsynced: map[int]bool{}}
	for i, s := range stack {
		switch s.Kind {
		case KBreaker:
			m := &cbModel{s: s}
			switch s.Pre {
			case "open":
				m.transition(circuitbreaker.OpenState, int64(s.BDelay))
			case "halfopen":
				m.transition(circuitbreaker.HalfOpenState, 0)
			}
			rs.Breakers[i] = m
		case KLimiter:
			var m *rlModel
			if s.Smooth {
				m = &rlModel{smooth: true, I: int64(s.Interval)}
			} else {
				m = &rlModel{I: int64(s.Period), n: int64(s.Permits)}
			}
			if s.Used > 0 {
				_, commit := m.request(0, int64(s.Used))
				commit()
			}
			rs.Limiters[i] = m
		case KCache:
			c := map[string]int{}
			for k, v := range s.Prepop {
				c[k] = v
			}
			rs.Caches[i] = c
		}
	}
	return rs
}

func (rs *RefState) beginExecution() {
	rs.retryFailed, rs.retryExhausted, rs.retryAmbiguous = map[int]int{}, map[int]bool{}, map[int]bool{}
	for _, m := range rs.Breakers {
		m.events = nil
	}
}

func exceeded(r *common.PolicyResult[int]) (retrypolicy.ExceededError, bool) {
	if r == nil || r.Error == nil {
		return retrypolicy.ExceededError{}, false
	}
	ee, ok := r.Error.(retrypolicy.ExceededError)
	return ee, ok
}

// checkRetryLayer: C02 (and the retry part of C01). apps are the applications of this layer
// within one execution, in order. t0 is the instant the execution started.
func (env *Env) checkRetryLayer(layer int, apps []*App, rs *RefState, t0 int64) string {
	s := env.Stack[layer]
	for j := 0; j < layer; j++ {
		if env.Stack[j].Kind == KHedge {
			return "" // concurrent applications of one retry layer: outside this contract (see C14)
		}
	}
	for _, a := range apps {
		if a.Out == nil {
			if env.Completed && !a.In.Exec.IsCanceled() {
				return "retry application never returned"
			}
			continue
		}
		out := a.Out.Res
		canceled := a.In.Exec.IsCanceled()
		if rs.retryAmbiguous[layer] {
			continue
		}
		if rs.retryExhausted[layer] {
			// once its budget is exhausted the policy is skipped for the rest of the execution
			if len(a.Children) != 1 {
				return fmt.Sprintf("retry policy with exhausted budget invoked what it wraps %d times", len(a.Children))
			}
			if c := a.Children[0]; c.Out != nil && !canceled && !sameOutcome(out, c.Out.Res) {
				return fmt.Sprintf("retry policy with exhausted budget changed %s into %s", resStr(c.Out.Res), resStr(out))
			}
			continue
		}
		if s.MaxRetries != -1 && len(a.Children) > s.MaxRetries+1 {
			return fmt.Sprintf("retry policy invoked what it wraps %d times, maxRetries is %d", len(a.Children), s.MaxRetries)
		}
		for j, c := range a.Children {
			last := j == len(a.Children)-1
			if c.Out == nil {
				if last && canceled {
					break
				}
				return fmt.Sprintf("retry application returned before its invocation %d did", j)
			}
			r := c.Out.Res
			failure := isFailure(s.Handle, r.Result, r.Error)
			if !failure {
				if !last {
					return fmt.Sprintf("retry policy retried after %s, which its conditions do not classify as a failure", resStr(r))
				}
				if canceled {
					break
				}
				if !sameOutcome(out, r) {
					return fmt.Sprintf("retry policy returned %s after the successful outcome %s", resStr(out), resStr(r))
				}
				if !out.Success || out.SuccessAll != r.SuccessAll {
					return fmt.Sprintf("retry policy verdict after success %s: Success=%v SuccessAll=%v (inner SuccessAll=%v)", resStr(r), out.Success, out.SuccessAll, r.SuccessAll)
				}
				break
			}
			if canceled && last {
				// the cancelled application returned the cancellation result; whether it had already counted
				// this failure depends on which came first, and both orders are legitimate (the cancellation
				// and the failure may stem from two timers of the same instant): a later application of this
				// layer in the same execution starts from a budget the log does not determine
				rs.retryAmbiguous[layer] = true
				break
			}
			rs.retryFailed[layer]++
			elapsed := c.Out.T - t0
			exhCount := s.MaxRetries != -1 && rs.retryFailed[layer] > s.MaxRetries
			exhDur := s.MaxDuration != 0 && elapsed > int64(s.MaxDuration)
			durBoundary := s.MaxDuration != 0 && elapsed == int64(s.MaxDuration) // not pinned by the statement
			exh := exhCount || exhDur
			// a result condition on an outcome that carries an error is not pinned for abort conditions
			abortMust, abort := matchSet(s.Abort, r.Result, r.Error)
			if last && !abortMust && abort && !exh && sameOutcome(out, r) {
				abortMust = true // the policy read the condition as matching: that reading is allowed
			}
			if !last {
				abort = abortMust
			}
			if abort && !abortMust && last && !sameOutcome(out, r) && !exh {
				abort = false
			}
			if abort || exh {
				if !last {
					why := "an abort-matching outcome"
					if exh {
						why = "its budget was exhausted"
					}
					return fmt.Sprintf("retry policy invoked what it wraps again after %s (%s, failed attempts %d, maxRetries %d, elapsed %d, maxDuration %d)", resStr(r), why, rs.retryFailed[layer], s.MaxRetries, elapsed, int64(s.MaxDuration))
				}
				rs.retryExhausted[layer] = rs.retryExhausted[layer] || exh
				ee, isExc := exceeded(out)
				if sameOutcome(out, r) {
					isExc = false // the stopping outcome returned unchanged (it may itself be an inner policy's ExceededError)
				}
				wantExc := exh && !s.ReturnLast
				switch {
				case isExc && (wantExc || durBoundary && !s.ReturnLast):
					if ee.LastResult != any(r.Result) || ee.LastError != r.Error {
						return fmt.Sprintf("ExceededError carries (%v,%v), the last outcome was %s", ee.LastResult, ee.LastError, resStr(r))
					}
				case !isExc && (!wantExc || abort): // rule 4: abort and exhausted at once: either story
					if !sameOutcome(out, r) {
						return fmt.Sprintf("retry policy stopped on %s but returned %s", resStr(r), resStr(out))
					}
				default:
					return fmt.Sprintf("retry policy stopped on %s (abort=%v exhausted=%v returnLastFailure=%v) and returned %s", resStr(r), abort, exh, s.ReturnLast, resStr(out))
				}
				if out.Success || out.SuccessAll {
					return fmt.Sprintf("retry policy gave up on %s but its verdict is success", resStr(r))
				}
				break
			}
			if last {
				if durBoundary {
					rs.retryExhausted[layer] = true
					break
				}
				return fmt.Sprintf("retry policy stopped after the failure %s with budget left (failed attempts %d, maxRetries %d) and returned %s", resStr(r), rs.retryFailed[layer], s.MaxRetries, resStr(out))
			}
		}
	}
	return ""
}

// checkFallbackLayer: C10.
func (env *Env) checkFallbackLayer(layer int, apps []*App) string {
	s := env.Stack[layer]
	if env.hedgeAbove(layer) {
		return ""
	}
	for _, a := range apps {
		if a.Out == nil {
			continue
		}
		if len(a.Children) != 1 || a.Children[0].Out == nil {
			return fmt.Sprintf("fallback invoked what it wraps %d times", len(a.Children))
		}
		r := a.Children[0].Out.Res
		out := a.Out.Res
		calls := 0
		var call *Event
		for i := range env.Events {
			e := &env.Events[i]
			if e.Policy == layer && e.Name == "fbcall" && e.Seq > a.In.Seq && e.Seq < a.Out.Seq {
				calls++
				call = e
			}
		}
		failure := isFailure(s.Handle, r.Result, r.Error)
		canceled := a.In.Exec.IsCanceled()
		if canceled {
			continue // C08
		}
		if failure {
			if calls != 1 {
				return fmt.Sprintf("fallback invoked %d times for the handled failure %s", calls, resStr(r))
			}
			if call.LastV != r.Result || call.LastE != r.Error {
				return fmt.Sprintf("fallback function saw last result (%d,%v), the failure it handles is %s", call.LastV, call.LastE, resStr(r))
			}
			fv, fe := fbOutput(s, r.Result)
			if out.Result != fv || out.Error != fe {
				return fmt.Sprintf("fallback returned %s, its output for the failure %s is (%d,%v)", resStr(out), resStr(r), fv, fe)
			}
			wantOK := !isFailure(s.Handle, fv, fe)
			if out.Success != wantOK || out.SuccessAll != wantOK {
				return fmt.Sprintf("fallback output (%d,%v) classified as success=%v by its conditions, verdict Success=%v SuccessAll=%v", fv, fe, wantOK, out.Success, out.SuccessAll)
			}
		} else {
			if calls != 0 {
				return fmt.Sprintf("fallback invoked for %s, which its conditions do not handle", resStr(r))
			}
			if !sameOutcome(out, r) {
				return fmt.Sprintf("fallback changed the unhandled outcome %s into %s", resStr(r), resStr(out))
			}
			if !out.Success || out.SuccessAll != r.SuccessAll {
				return fmt.Sprintf("fallback verdict on unhandled %s: Success=%v SuccessAll=%v (inner %v)", resStr(r), out.Success, out.SuccessAll, r.SuccessAll)
			}
		}
	}
	return ""
}

// effective cache key: a string key supplied through the context takes precedence (rule 6: an
// empty string may mean "no key" or "fall back to the configured key").
func cacheKeys(s Spec, ctxKey any) []string {
	if k, ok := ctxKey.(string); ok {
		return []string{k} // also the empty string: it was supplied, it takes precedence, and it is no key
	}
	return []string{s.Key}
}

func cacheable(s Spec, v int, err error) bool {
	switch s.CacheIf {
	case "v1":
		return v == 1
	case "err":
		return err != nil
	case "v1|err":
		return v == 1 || err != nil
	}
	return err == nil
}

// checkCacheLayer: C11. gets/sets are the instrumented cache's log for this execution.
func (env *Env) checkCacheLayer(layer int, apps []*App, rs *RefState, ctxKey any) string {
	s := env.Stack[layer]
	mc := env.Caches[layer]
	model := rs.Caches[layer]
	keys := cacheKeys(s, ctxKey)
	if env.hedgeAbove(layer) {
		// overlapping attempts: the hit/miss contract is not applied; the reference follows the cache
		for k := range model {
			delete(model, k)
		}
		for k, v := range mc.M {
			model[k] = v
		}
		return ""
	}
	for _, a := range apps {
		if a.Out == nil {
			continue
		}
		out := a.Out.Res
		var gets, sets []string
		for i, sq := range mc.GetSeq {
			if sq > a.In.Seq && sq < a.Out.Seq {
				gets = append(gets, mc.Gets[i])
			}
		}
		for i, sq := range mc.SetSeq {
			if sq > a.In.Seq && sq < a.Out.Seq {
				sets = append(sets, mc.Sets[i])
			}
		}
		var key string
		hit := false
		for _, k := range keys {
			if k == "" {
				continue
			}
			if _, ok := model[k]; ok {
				key, hit = k, true
				break
			}
			key = k
		}
		if len(keys) == 2 {
			// ambiguous empty context key: accept the behaviour of either reading, decided by what the policy looked up
			if len(gets) == 0 {
				key, hit = "", false
			}
		}
		if key == "" {
			if len(gets)+len(sets) != 0 {
				return fmt.Sprintf("no cache key, but the cache was accessed (gets %v, sets %v)", gets, sets)
			}
			if len(a.Children) != 1 || a.Children[0].Out == nil || !sameOutcome(out, a.Children[0].Out.Res) {
				return "no cache key: the inner result must pass through"
			}
			continue
		}
		if hit {
			if len(a.Children) != 0 {
				return fmt.Sprintf("cache holds %q=%d but the policies inside the cache policy were invoked", key, model[key])
			}
			if out.Result != model[key] || out.Error != nil || !out.Success || !out.SuccessAll {
				return fmt.Sprintf("cache hit on %q=%d returned %s (Success=%v)", key, model[key], resStr(out), out.Success)
			}
			if len(sets) != 0 {
				return "cache written on a hit"
			}
			continue
		}
		if len(a.Children) != 1 || a.Children[0].Out == nil {
			return fmt.Sprintf("cache miss on %q: inner invoked %d times", key, len(a.Children))
		}
		r := a.Children[0].Out.Res
		if !sameOutcome(out, r) || out.SuccessAll != r.SuccessAll {
			return fmt.Sprintf("cache miss: inner result %s came back as %s", resStr(r), resStr(out))
		}
		want := cacheable(s, r.Result, r.Error)
		stored := len(sets) > 0
		if stored != want {
			return fmt.Sprintf("inner result %s stored=%v, cacheable=%v", resStr(r), stored, want)
		}
		if stored {
			if len(sets) != 1 || sets[0] != fmt.Sprintf("%s=%d", key, r.Result) {
				return fmt.Sprintf("stored %v, want %s=%d", sets, key, r.Result)
			}
			model[key] = r.Result
		}
	}
	return ""
}

// checkBreakerLayer: the breaker part of C01 for sequential programs (reference model of C03).
func (env *Env) checkBreakerLayer(layer int, apps []*App, rs *RefState) string {
	s := env.Stack[layer]
	m := rs.Breakers[layer]
	if env.hedgeAbove(layer) {
		// overlapping attempts: where each admission and record takes effect between the probe records
		// is not observable, so the sequential reference does not apply (C04 covers concurrency)
		rs.Unsynced[layer] = true
		return ""
	}
	// admissions and records take effect in the order they happened (attempts overlap under a hedge)
	type step struct {
		seq   int
		enter bool
		a     *App
	}
	var steps []step
	for _, a := range apps {
		steps = append(steps, step{a.In.Seq, true, a})
		if len(a.Children) == 1 && a.Children[0].Out != nil {
			steps = append(steps, step{a.Children[0].Out.Seq, false, a})
		}
	}
	sort.Slice(steps, func(i, j int) bool { return steps[i].seq < steps[j].seq })
	admitted := map[*App]bool{}
	for _, st := range steps {
		a := st.a
		if st.enter {
			admitted[a] = m.acquireAt(a.In.T)
			if !admitted[a] {
				if len(a.Children) != 0 {
					return fmt.Sprintf("breaker in state %v invoked what it wraps", m.state)
				}
				if a.Out != nil {
					out := a.Out.Res
					if !errors.Is(out.Error, circuitbreaker.ErrOpen) || out.Result != 0 || out.Success {
						return fmt.Sprintf("breaker in state %v returned %s, want ErrOpen", m.state, resStr(out))
					}
				}
			} else if len(a.Children) != 1 && a.Out != nil {
				return fmt.Sprintf("breaker admitted the attempt (state %v) but invoked what it wraps %d times", m.state, len(a.Children))
			}
			continue
		}
		if !admitted[a] {
			continue
		}
		r := a.Children[0].Out.Res
		failure := isFailure(s.Handle, r.Result, r.Error)
		delay := int64(s.BDelay)
		if s.DelayByErr && r.Error != E1 {
			delay = 1
		}
		m.recordAt(a.Children[0].Out.T, !failure, delay)
		if a.Out != nil {
			out := a.Out.Res
			if !sameOutcome(out, r) {
				return fmt.Sprintf("breaker changed %s into %s", resStr(r), resStr(out))
			}
			if out.Success == failure {
				return fmt.Sprintf("breaker verdict Success=%v for %s (failure=%v by its conditions)", out.Success, resStr(r), failure)
			}
		}
	}
	return ""
}

// checkLimiterLayer / checkBulkheadLayer: sequential programs.
func (env *Env) checkLimiterLayer(layer int, apps []*App, rs *RefState, created int64) string {
	s := env.Stack[layer]
	m := rs.Limiters[layer]
	for _, a := range apps {
		wait, commit := m.request(a.In.T-created, 1)
		// (an attempt inside a cancelled hedge attempt: its own execution copy is not marked cancelled, its context is done)
		if a.Out == nil || a.In.Exec.IsCanceled() || (a.Out.CtxDone && len(a.Children) == 0) {
			if wait <= int64(s.LWait) {
				commit() // the permit was reserved before the cancellation was noticed
			}
			continue
		}
		out := a.Out.Res
		// attempts of a hedge that reach the limiter at the same instant are served in an order the log
		// does not show (probe entry and permit request are separate steps): the reference takes them in
		// log order, so with such a tie the refusal may have gone to the other attempt
		tie := false
		if env.hedgeAbove(layer) {
			for _, b := range apps {
				tie = tie || (b != a && b.In.T == a.In.T)
			}
		}
		refusedReal := len(a.Children) == 0 && errors.Is(out.Error, ratelimiter.ErrExceeded)
		if tie && refusedReal != (wait > int64(s.LWait)) {
			if !refusedReal {
				commit()
			}
			continue
		}
		if wait > int64(s.LWait) {
			if len(a.Children) != 0 || !errors.Is(out.Error, ratelimiter.ErrExceeded) || out.Success {
				return fmt.Sprintf("rate limiter should refuse (wait %d > max wait %d) but %d inner invocations, result %s", wait, int64(s.LWait), len(a.Children), resStr(out))
			}
			continue
		}
		commit()
		if len(a.Children) != 1 || a.Children[0].Out == nil {
			return fmt.Sprintf("rate limiter admitted the attempt but invoked what it wraps %d times", len(a.Children))
		}
		c := a.Children[0]
		if c.In.T != a.In.T+wait {
			return fmt.Sprintf("rate limiter released the attempt at t=%d, the permit is usable at t=%d", c.In.T, a.In.T+wait)
		}
		if !sameOutcome(out, c.Out.Res) || out.SuccessAll != c.Out.Res.SuccessAll {
			return fmt.Sprintf("rate limiter changed %s into %s", resStr(c.Out.Res), resStr(out))
		}
	}
	return ""
}

func (env *Env) checkBulkheadLayer(layer int, apps []*App) string {
	s := env.Stack[layer]
	if env.hedgeAbove(layer) {
		return "" // attempts overlap: C06
	}
	for _, a := range apps {
		if a.Out == nil {
			continue
		}
		out := a.Out.Res
		if a.In.Exec.IsCanceled() {
			continue
		}
		if s.Held >= s.Conc {
			if len(a.Children) != 0 || !errors.Is(out.Error, bulkhead.ErrFull) || out.Success {
				return fmt.Sprintf("full bulkhead: %d inner invocations, result %s", len(a.Children), resStr(out))
			}
			if a.Out.T != a.In.T+int64(s.BWait) {
				return fmt.Sprintf("full bulkhead refused at t=%d, entered t=%d, max wait %d", a.Out.T, a.In.T, int64(s.BWait))
			}
			continue
		}
		if len(a.Children) != 1 || a.Children[0].Out == nil {
			return fmt.Sprintf("bulkhead with free permits invoked what it wraps %d times", len(a.Children))
		}
		if !sameOutcome(out, a.Children[0].Out.Res) || out.SuccessAll != a.Children[0].Out.Res.SuccessAll {
			return fmt.Sprintf("bulkhead changed %s into %s", resStr(a.Children[0].Out.Res), resStr(out))
		}
	}
	return ""
}

// model helpers that take the instant explicitly (the checks run after the execution)
func (m *cbModel) acquireAt(t int64) bool {
	switch m.state {
	case circuitbreaker.ClosedState:
		return true
	case circuitbreaker.OpenState:
		if t-m.openedAt >= m.delay {
			m.events = append(m.events, "open->half-open")
			m.state = circuitbreaker.HalfOpenState
			m.recs = nil
			m.permits = m.capacityHalfOpen()
			m.outstanding = 0
			return m.acquireAt(t)
		}
		return false
	default:
		if m.permits > 0 {
			m.permits--
			m.outstanding++
			return true
		}
		return false
	}
}

func (m *cbModel) recordAt(t int64, ok bool, delay int64) {
	if m.state == circuitbreaker.OpenState {
		return
	}
	// count-based configurations only (time-based ones are outside the C01 alphabet)
	m.recs = append(m.recs, cbRecord{t, ok})
	half := m.state == circuitbreaker.HalfOpenState
	capacity := m.closedCapacity()
	if half {
		capacity = m.capacityHalfOpen()
		m.outstanding--
		m.permits++
	}
	rs := m.recs
	if len(rs) > capacity {
		rs = rs[len(rs)-capacity:]
	}
	f := 0
	for _, r := range rs {
		if !r.ok {
			f++
		}
	}
	sOK := len(rs) - f
	t_ := int(m.s.FT)
	if t_ == 0 {
		t_ = 1
	}
	open, closeIt := false, false
	if !half {
		open = f >= t_
	} else if m.s.ST != 0 {
		sc := int(m.s.SC)
		if sc == 0 {
			sc = int(m.s.ST)
		}
		closeIt = sOK >= int(m.s.ST)
		open = !closeIt && f > sc-int(m.s.ST)
	} else {
		open = f >= t_
		closeIt = !open && sOK > m.closedCapacity()-t_
	}
	switch {
	case open:
		m.events = append(m.events, m.state.String()+"->open")
		m.state, m.openedAt, m.delay, m.recs = circuitbreaker.OpenState, t, delay, nil
	case closeIt:
		m.events = append(m.events, m.state.String()+"->closed")
		m.state, m.recs = circuitbreaker.ClosedState, nil
	}
}

// checkAllLayers runs every layer contract on the probe log of one finished execution.
func (env *Env) checkAllLayers(rs *RefState, t0, created int64, ctxKey any) string {
	_, byLayer := env.Apps()
	for i, s := range env.Stack {
		var msg string
		switch s.Kind {
		case KRetry:
			msg = env.checkRetryLayer(i, byLayer[i], rs, t0)
		case KFallback:
			msg = env.checkFallbackLayer(i, byLayer[i])
		case KCache:
			msg = env.checkCacheLayer(i, byLayer[i], rs, ctxKey)
		case KBreaker:
			msg = env.checkBreakerLayer(i, byLayer[i], rs)
		case KLimiter:
			msg = env.checkLimiterLayer(i, byLayer[i], rs, created)
		case KBulkhead:
			msg = env.checkBulkheadLayer(i, byLayer[i])
		case KTimeout:
			msg = env.checkTimeoutLayer(i, byLayer[i])
		case KHedge:
			msg = env.checkHedgeLayer(i, byLayer[i])
		}
		if msg != "" {
			return fmt.Sprintf("layer %d %s: %s", i, s.String(), msg)
		}
	}
	return ""
}

var _ = cachepolicy.CacheKey
var _ = timeout.ErrExceeded
