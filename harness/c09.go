package main

// C09 — Hedge: bounded attempts, spaced by the delay, one winner, losers cancelled (SX).

import (
	"fmt"
	"time"
)

func c09Scenarios(tier string) []*Scenario { return hedgeTimingScenarios("C09", tier, "") }

// hedgeTimingScenarios is the C09 family: hedged executions whose attempts return before, at and after
// the instants the hedge delays expire. With extra = "events" / "stats" the event (C16) and statistics
// (C17) contracts are evaluated on every schedule as well, over the bare-hedge part of the family.
func hedgeTimingScenarios(prop, tier, extra string) []*Scenario {
	const D = 50 * time.Nanosecond
	bound := 1
	if tier == "thorough" {
		bound = 2
	}
	var out []*Scenario
	check := func(env *Env) string {
		_, byLayer := env.Apps()
		for i, s := range env.Stack {
			if s.Kind == KHedge {
				if msg := env.checkHedgeLayer(i, byLayer[i]); msg != "" {
					return msg
				}
			}
			if s.Kind == KTimeout {
				if msg := env.checkTimeoutLayer(i, byLayer[i]); msg != "" {
					return msg
				}
			}
		}
		return ""
	}
	add := func(name string, stack []Spec, script []Out, b int) {
		if extra != "" && len(stack) != 1 {
			return // the event and statistics contracts of the other layers need the C01 runner's reference state
		}
		out = append(out, &Scenario{
			Name:  fmt.Sprintf("%s/%s [%s] script=%s", prop, name, stackStr(stack), scriptStr(script)),
			Bound: b, Reduce: true,
			Body: func() {
				env := NewEnv(stack)
				env.Script = script
				env.Reduce = true
				env.ProbeStats = true
				env.runSync(true)
				vrtSleep(20 * D)
				markResult(env)
				if msg := env.checkTop(); msg != "" {
					fail(msg)
				} else if msg := check(env); msg != "" {
					fail(msg)
				} else if extra == "events" {
					if msg := env.checkEvents(NewRefState(stack)); msg != "" {
						fail("events: " + msg)
					}
				} else if extra == "stats" {
					if msg := env.checkStats(); msg != "" {
						fail("statistics: " + msg)
					}
				}
			},
		})
	}
	conds := map[string][]Cond{
		"default":   nil,
		"result(1)": {{K: "result", V: 1}},
		"errs(E1)":  {{K: "errs", E: E1}},
		"nomatch":   {{K: "result", V: 77}},
		// several errors registered in one call, the matching one not last
		"errs(E1,E4)": {{K: "errs", E: E1, Es: []error{E4}}},
	}
	condNames := []string{"default", "result(1)", "errs(E1)", "nomatch"}
	var durs []Out
	ds := []time.Duration{0, D, 3 * D}
	if tier == "thorough" {
		ds = []time.Duration{0, D - 1, D, D + 1, 3 * D}
	}
	for _, d := range ds {
		durs = append(durs, Out{V: 1, Dur: d}, Out{Err: E1, Dur: d}, Out{V: 0, Dur: d, Coop: true})
	}
	durs = append(durs, Out{V: 1, Block: true}, Out{Err: E1, Block: true})
	cancellable := func(cs []Cond, o Out) bool { return len(cs) == 0 || matchesAny(cs, o.V, o.Err) }
	for _, mh := range []int{1, 2} {
		if mh == 2 && tier != "thorough" {
			// quick: two hedges only over a reduced alphabet
			durs = []Out{{V: 1, Dur: 0}, {Err: E1, Dur: D}, {V: 1, Dur: 3 * D}, {V: 0, Dur: 3 * D, Coop: true}, {Err: E1, Block: true}}
		}
		names := condNames
		if mh == 1 {
			names = append(append([]string{}, condNames...), "errs(E1,E4)")
		}
		for _, cn := range names {
			cs := conds[cn]
			H := Spec{Kind: KHedge, MaxHedges: mh, HDelay: D, Cancel: cs}
			var rec func(prefix []Out)
			rec = func(prefix []Out) {
				if len(prefix) == mh+1 {
					// a blocking attempt needs some other attempt to win, otherwise nothing ever returns
					blocks, wins := 0, 0
					for _, o := range prefix {
						if o.Block {
							blocks++
						} else if cancellable(cs, o) {
							wins++
						}
					}
					if blocks > 0 && wins == 0 {
						return
					}
					add(fmt.Sprintf("bare/mh%d/%s", mh, cn), []Spec{H}, append([]Out{}, prefix...), bound)
					return
				}
				for _, o := range durs {
					rec(append(prefix, o))
				}
			}
			rec(nil)
		}
	}
	// maxHedges 0: never hedge
	for _, o := range []Out{{V: 1, Dur: 3 * D}, {Err: E1, Dur: D}, {V: 0, Dur: 0}, {V: 1, Dur: 3 * D, Coop: true}} {
		add("bare/mh0", []Spec{{Kind: KHedge, MaxHedges: 0, HDelay: D}}, []Out{o, {V: 2}}, bound)
		add("bare/mh0/result(1)", []Spec{{Kind: KHedge, MaxHedges: 0, HDelay: D, Cancel: conds["result(1)"]}}, []Out{o, {V: 2}}, bound)
	}
	// a delay function whose value varies within one pass (an immediate backup request, then a later second hedge; and the reverse)
	for _, ds := range [][]time.Duration{{0, 3 * D}, {D, 0}, {3 * D, D}, {0, 0}} {
		for _, cn := range []string{"default", "result(1)"} {
			H := Spec{Kind: KHedge, MaxHedges: 2, HDelays: ds, Cancel: conds[cn]}
			for _, first := range []Out{{V: 1, Dur: 2 * D}, {Err: E1, Dur: D / 2}, {V: 0, Dur: 5 * D, Coop: true}} {
				for _, rest := range []Out{{V: 1, Dur: D}, {Err: E1, Dur: 5 * D, Coop: true}} {
					add("delayfunc/"+cn, []Spec{H}, []Out{first, rest, {V: 1, Dur: D / 2}}, bound)
				}
			}
		}
	}
	// placements
	H1 := Spec{Kind: KHedge, MaxHedges: 1, HDelay: D}
	H2 := Spec{Kind: KHedge, MaxHedges: 2, HDelay: D, Cancel: []Cond{{K: "result", V: 1}}}
	add("retry(hedge)", []Spec{{Kind: KRetry, MaxRetries: 1}, H1}, []Out{{Err: E1, Dur: 3 * D}, {Err: E1, Dur: D}, {V: 1, Dur: 0}}, bound+1)
	add("retry(hedge)", []Spec{{Kind: KRetry, MaxRetries: 1}, H2}, []Out{{Err: E1, Dur: D}, {Err: E1, Dur: D}, {Err: E1, Dur: 0}, {V: 1, Dur: D}}, bound)
	// the hedge policy entered more than once within one execution, with conditions that leave some results non-cancellable
	{
		alpha := []Out{{V: 1}, {Err: E1}, {Err: E1, Dur: D}, {V: 0, Dur: 3 * D, Coop: true}}
		n := 0
		for _, cn := range condNames[1:] {
			H := Spec{Kind: KHedge, MaxHedges: 1, HDelay: D, Cancel: conds[cn]}
			for a := range alpha {
				for b := range alpha {
					for c := range alpha {
						for d := range alpha {
							n++
							if tier != "thorough" && n%3 != 0 {
								continue
							}
							add("retry(hedge)/"+cn, []Spec{{Kind: KRetry, MaxRetries: 1}, H}, []Out{alpha[a], alpha[b], alpha[c], alpha[d]}, bound)
						}
					}
				}
			}
		}
	}
	add("timeout(hedge)", []Spec{{Kind: KTimeout, Limit: 2 * D}, H2}, []Out{{Err: E1, Dur: 3 * D, Coop: true}, {Err: E1, Dur: 3 * D, Coop: true}, {V: 1, Dur: 0}}, bound+1)
	add("fallback(hedge)", []Spec{{Kind: KFallback, FbV: 9}, H1}, []Out{{Err: E1, Dur: 3 * D}, {Err: E1, Dur: D}}, bound+1)
	add("hedge(retry)", []Spec{H1, {Kind: KRetry, MaxRetries: 1}}, []Out{{Err: E1, Dur: D}, {V: 1, Dur: D}, {V: 2, Dur: D}}, bound)
	add("hedge(timeout)", []Spec{H1, {Kind: KTimeout, Limit: D}}, []Out{{V: 1, Block: true}, {V: 2, Dur: D - 1}}, bound+1)
	return out
}

func init() {
	scenarioSets["C09"] = c09Scenarios
	register(&CheckDef{
		Property:  "C09",
		Technique: "stateless schedule exploration (deviation-bounded, happens-before state cache) of the real hedge executor and its attempt threads under a virtual clock, over every assignment of durations and outcomes to the attempts",
		Rule: "one execution = one complete schedule of a hedged execution whose attempts take scripted durations (0, delay-1, delay, delay+1, 3*delay, until cancelled) and outcomes; " +
			"every assignment for maxHedges 0, 1 (and 2 over a smaller alphabet in the quick tier) x four cancel-condition configurations (five for maxHedges 1: one registers two errors in one call), plus delay functions whose value varies within one pass ({0,3D}, {D,0}, {3D,D}, {0,0}) and placements inside retry/timeout/fallback, including every four-outcome script over a four-element alphabet for a hedge entered twice by a retry under the three non-default cancel conditions; distinct = distinct observation logs",
		Assume: []string{"sequentially consistent interleavings at synchronisation granularity", "hedge delays: fixed, and four delay functions whose value depends on the number of hedges started",
			"instrumentation by source rewriting preserves semantics (DESIGN.md §2)"},
		Budget: map[string]time.Duration{"quick": 180 * time.Second},
		Units: func(tier string) []Unit {
			if tier == "thorough" {
				return chunkUnits("C09", c09Scenarios(tier), 8)
			}
			var us []Unit
			for _, sc := range c09Scenarios(tier) {
				us = append(us, scenarioUnit(sc))
			}
			return us
		},
	})
}
