module verif/harness

go 1.23

require github.com/failsafe-go/failsafe-go v0.0.0

require github.com/bits-and-blooms/bitset v1.20.0 // indirect

replace github.com/failsafe-go/failsafe-go => /repo
