package main

// gRPC part of C18: the interceptors are called directly with fake invokers / handlers.

import (
	"context"
	"errors"
	"fmt"
	"time"

	"github.com/failsafe-go/failsafe-go"
	"github.com/failsafe-go/failsafe-go/bulkhead"
	"github.com/failsafe-go/failsafe-go/failsafegrpc"
	"github.com/failsafe-go/failsafe-go/timeout"
	"github.com/failsafe-go/failsafe-go/verifrt/vcontext"
	"github.com/failsafe-go/failsafe-go/verifrt/vrt"
	"google.golang.org/grpc"
	"google.golang.org/grpc/codes"
	"google.golang.org/grpc/metadata"
	"google.golang.org/grpc/status"
	"google.golang.org/grpc/tap"
)

type grpcReply struct{ Msg string }
type grpcReq struct{ Msg string }

type grpcCase struct {
	side  string // "client", "server", "tap"
	ctx   string // "background", "metadata", "value", "deadline", "metadata+deadline", "cancel"
	stack string // "none", "retry", "timeout", "retry+timeout", "bulkhead-full"
	codes []codes.Code
	leak  bool
}

func (c grpcCase) String() string {
	return fmt.Sprintf("%s ctx=%s stack=%s codes=%v", c.side, c.ctx, c.stack, c.codes)
}

func (c grpcCase) policies() []failsafe.Policy[*grpcReply] {
	rp := func() failsafe.Policy[*grpcReply] { return failsafegrpc.RetryPolicyBuilder[*grpcReply]().Build() }
	to := func() failsafe.Policy[*grpcReply] { return timeout.With[*grpcReply](time.Second) }
	switch c.stack {
	case "retry":
		return []failsafe.Policy[*grpcReply]{rp()}
	case "timeout":
		return []failsafe.Policy[*grpcReply]{to()}
	case "retry+timeout":
		return []failsafe.Policy[*grpcReply]{rp(), to()}
	case "bulkhead-full":
		b := bulkhead.With[*grpcReply](1)
		b.TryAcquirePermit()
		return []failsafe.Policy[*grpcReply]{b}
	}
	return nil
}

func grpcRetryable(c codes.Code) bool {
	return c == codes.Unavailable || c == codes.DeadlineExceeded || c == codes.ResourceExhausted
}

func (c grpcCase) body() func() {
	return func() {
		ctx := context.Background()
		md := metadata.Pairs("k", "v", "k2", "v2")
		deadline := time.Unix(0, vrt.Now()).Add(time.Hour)
		var cancel context.CancelFunc
		switch c.ctx {
		case "metadata":
			if c.side == "client" {
				ctx = metadata.NewOutgoingContext(ctx, md)
			} else {
				ctx = metadata.NewIncomingContext(ctx, md)
			}
		case "value":
			ctx = context.WithValue(ctx, callerKey, "v")
		case "deadline":
			ctx, cancel = vcontext.WithDeadline(ctx, deadline)
		case "metadata+deadline":
			if c.side == "client" {
				ctx = metadata.NewOutgoingContext(ctx, md)
			} else {
				ctx = metadata.NewIncomingContext(ctx, md)
			}
			ctx, cancel = vcontext.WithDeadline(ctx, deadline)
		case "cancel":
			ctx, cancel = vcontext.WithCancel(ctx)
		}
		if cancel != nil && !c.leak {
			defer cancel()
		}
		req, reply := &grpcReq{"ping"}, &grpcReply{}
		type seen struct {
			ctx      context.Context
			md       metadata.MD
			val      any
			deadline time.Time
			hasDl    bool
			err      error
		}
		var calls []seen
		record := func(cx context.Context) *seen {
			s := seen{ctx: cx, val: cx.Value(callerKey)}
			if c.side == "client" {
				s.md, _ = metadata.FromOutgoingContext(cx)
			} else {
				s.md, _ = metadata.FromIncomingContext(cx)
			}
			s.deadline, s.hasDl = cx.Deadline()
			calls = append(calls, s)
			return &calls[len(calls)-1]
		}
		next := func() error {
			k := len(calls) - 1
			code := c.codes[min(k, len(c.codes)-1)]
			if code == codes.OK {
				return nil
			}
			return status.Error(code, "scripted")
		}
		checkCtx := func() string {
			for i, s := range calls {
				if (c.ctx == "metadata" || c.ctx == "metadata+deadline") && (len(s.md.Get("k")) != 1 || s.md.Get("k")[0] != "v" || len(s.md.Get("k2")) != 1) {
					return fmt.Sprintf("attempt %d ran under a context without the call's metadata (got %v)", i, s.md)
				}
				if c.ctx == "value" && s.val != "v" {
					return fmt.Sprintf("attempt %d ran under a context without the caller's context value", i)
				}
				if (c.ctx == "deadline" || c.ctx == "metadata+deadline") && (!s.hasDl || !s.deadline.Equal(deadline)) {
					return fmt.Sprintf("attempt %d ran under a context without the caller's deadline", i)
				}
			}
			return ""
		}
		wantAttempts := 1
		if c.stack == "retry" || c.stack == "retry+timeout" {
			for wantAttempts < 3 && grpcRetryable(c.codes[min(wantAttempts-1, len(c.codes)-1)]) {
				wantAttempts++
			}
		}
		switch c.side {
		case "client":
			var cc *grpc.ClientConn
			opt := grpc.WaitForReady(true)
			invoker := func(cx context.Context, method string, rq, rp any, conn *grpc.ClientConn, opts ...grpc.CallOption) error {
				vrt.EnterUser()
				defer vrt.ExitUser()
				s := record(cx)
				if method != "/svc/Method" || rq != any(req) || rp != any(reply) || conn != cc || len(opts) != 1 {
					vrt.Fail(fmt.Sprintf("invoker got method=%q req=%v reply=%v opts=%d: arguments were not passed through unchanged", method, rq, rp, len(opts)))
				}
				s.err = next()
				if s.err == nil {
					rp.(*grpcReply).Msg = "pong"
				}
				return s.err
			}
			err := failsafegrpc.NewUnaryClientInterceptor[*grpcReply](c.policies()...)(ctx, "/svc/Method", req, reply, cc, invoker, opt)
			vrt.Mark(fmt.Sprintf("calls=%d err=%v reply=%q", len(calls), err, reply.Msg))
			if c.stack == "bulkhead-full" {
				if !errors.Is(err, bulkhead.ErrFull) || len(calls) != 0 {
					vrt.Fail(fmt.Sprintf("full bulkhead: err=%v calls=%d", err, len(calls)))
				}
				return
			}
			if len(calls) != wantAttempts {
				vrt.Fail(fmt.Sprintf("%d invocations for status codes %v, the documented retryable codes give %d", len(calls), c.codes, wantAttempts))
				return
			}
			last := calls[len(calls)-1].err
			if (err == nil) != (last == nil) || (err != nil && !errors.Is(err, last) && err != last) {
				vrt.Fail(fmt.Sprintf("interceptor returned %v, the last invocation returned %v", err, last))
				return
			}
			if last == nil && reply.Msg != "pong" {
				vrt.Fail("reply was not passed through")
				return
			}
			if msg := checkCtx(); msg != "" {
				vrt.Fail(msg)
			}
		case "server":
			info := &grpc.UnaryServerInfo{FullMethod: "/svc/Method"}
			resp := &grpcReply{"pong"}
			handler := func(cx context.Context, rq any) (any, error) {
				vrt.EnterUser()
				defer vrt.ExitUser()
				s := record(cx)
				if rq != any(req) {
					vrt.Fail("handler got a different request")
				}
				s.err = next()
				if s.err != nil {
					return nil, s.err
				}
				return resp, nil
			}
			got, err := failsafegrpc.NewUnaryServerInterceptor[*grpcReply](c.policies()...)(ctx, req, info, handler)
			vrt.Mark(fmt.Sprintf("calls=%d err=%v", len(calls), err))
			if c.stack == "bulkhead-full" {
				if !errors.Is(err, bulkhead.ErrFull) || len(calls) != 0 {
					vrt.Fail(fmt.Sprintf("full bulkhead: err=%v calls=%d", err, len(calls)))
				}
				return
			}
			if len(calls) != wantAttempts {
				vrt.Fail(fmt.Sprintf("%d handler calls for status codes %v, want %d", len(calls), c.codes, wantAttempts))
				return
			}
			last := calls[len(calls)-1].err
			if last == nil && (got != any(resp) || err != nil) {
				vrt.Fail(fmt.Sprintf("server interceptor returned (%v,%v), the handler returned (%v,nil)", got, err, resp))
				return
			}
			if last != nil && !errors.Is(err, last) && err != last {
				vrt.Fail(fmt.Sprintf("server interceptor returned error %v, the handler returned %v", err, last))
				return
			}
			if msg := checkCtx(); msg != "" {
				vrt.Fail(msg)
			}
		case "tap":
			h := failsafegrpc.NewServerInHandle[*grpcReply](c.policies()...)
			out, err := h(ctx, &tap.Info{FullMethodName: "/svc/Method"})
			vrt.Mark(fmt.Sprintf("tap err=%v", err))
			if out != ctx {
				vrt.Fail("tap handle returned a different context")
			}
			if c.stack == "bulkhead-full" {
				if !errors.Is(err, bulkhead.ErrFull) {
					vrt.Fail(fmt.Sprintf("full bulkhead: tap err=%v", err))
				}
			} else if err != nil {
				vrt.Fail(fmt.Sprintf("tap err=%v", err))
			}
		}
	}
}

func c18GrpcCases(tier string) []grpcCase {
	var out []grpcCase
	ctxs := []string{"background", "metadata", "value", "deadline", "metadata+deadline", "cancel"}
	stacks := []string{"none", "retry", "timeout", "retry+timeout", "bulkhead-full"}
	for _, side := range []string{"client", "server"} {
		// every status code: retried or not
		for code := codes.Code(0); code <= codes.Unauthenticated; code++ {
			out = append(out, grpcCase{side: side, ctx: "background", stack: "retry", codes: []codes.Code{code, codes.OK}})
			out = append(out, grpcCase{side: side, ctx: "metadata", stack: "retry+timeout", codes: []codes.Code{code, code, code, codes.OK}})
		}
		for _, cx := range ctxs {
			for _, st := range stacks {
				out = append(out, grpcCase{side: side, ctx: cx, stack: st, codes: []codes.Code{codes.Unavailable, codes.OK}})
				out = append(out, grpcCase{side: side, ctx: cx, stack: st, codes: []codes.Code{codes.OK}})
			}
		}
	}
	for _, st := range []string{"none", "bulkhead-full", "timeout"} {
		out = append(out, grpcCase{side: "tap", ctx: "metadata", stack: st, codes: []codes.Code{codes.OK}})
	}
	return out
}

func c18GrpcScenarios(tier string) []*Scenario {
	var out []*Scenario
	for _, c := range c18GrpcCases(tier) {
		c := c
		out = append(out, &Scenario{Name: "C18/grpc " + c.String(), Bound: 1, Reduce: true, Body: c.body()})
	}
	return out
}
