package main

// C06 — Bulkhead never exceeds its concurrency limit and never loses permits (SX).

import (
	"context"
	"errors"
	"fmt"
	"time"

	"github.com/failsafe-go/failsafe-go"
	"github.com/failsafe-go/failsafe-go/bulkhead"
	"github.com/failsafe-go/failsafe-go/retrypolicy"
	"github.com/failsafe-go/failsafe-go/timeout"
	"github.com/failsafe-go/failsafe-go/verifrt/vcontext"
	"github.com/failsafe-go/failsafe-go/verifrt/vrt"
)

// c06Setup installs the in-flight invariant: functions in progress plus permits held through the
// standalone API never exceed maxConcurrency.
func c06Setup(bi int, conc int) func(env *Env) {
	return func(env *Env) {
		env.OnEnter = func(x *Exe, inv *Inv) {
			if env.InFlight+env.Held > conc {
				vrt.Fail(fmt.Sprintf("%d functions in progress plus %d standalone permits exceed maxConcurrency %d", env.InFlight, env.Held, conc))
			}
		}
	}
}

func (env *Env) held(d int) {
	env.obs()
	env.addHeld(d)
}

//go:norace
func (env *Env) addHeld(d int) { env.Held += d }

func c06Final(bi int, conc int, bare bool, wait time.Duration) func(env *Env) string {
	return func(env *Env) string {
		for _, x := range env.Exes {
			if !x.Completed {
				return fmt.Sprintf("execution %d did not complete", x.ID)
			}
			refused := errors.Is(x.ResE, bulkhead.ErrFull)
			canceled := errors.Is(x.ResE, context.Canceled) || errors.Is(x.ResE, context.DeadlineExceeded) || errors.Is(x.ResE, failsafe.ErrExecutionCanceled)
			if bare {
				if (refused || canceled) && len(x.Invs) > 0 && !(canceled && x.Invs[0].Returned) {
					return fmt.Sprintf("execution %d returned %v but the function was invoked", x.ID, x.ResE)
				}
				if refused && x.DoneAt-x.StartedAt < int64(wait) {
					return fmt.Sprintf("execution %d got ErrFull after %d, before the max wait time %d", x.ID, x.DoneAt-x.StartedAt, int64(wait))
				}
				if !refused && !canceled {
					if len(x.Invs) != 1 {
						return fmt.Sprintf("execution %d invoked the function %d times", x.ID, len(x.Invs))
					}
					o := x.Script[0]
					if x.ResV != o.V || x.ResE != o.Err {
						return fmt.Sprintf("execution %d returned (%d,%v), the function returned (%d,%v)", x.ID, x.ResV, x.ResE, o.V, o.Err)
					}
				}
			}
		}
		if env.InFlight != 0 {
			return fmt.Sprintf("%d invocations still in progress at the end", env.InFlight)
		}
		bh := env.Bulks[bi]
		got := 0
		for i := 0; i < conc+1; i++ {
			if bh.TryAcquirePermit() {
				got++
			}
		}
		if got != conc-env.Held {
			return fmt.Sprintf("after all executions finished %d permits could be acquired, want %d (maxConcurrency %d, %d held standalone)", got, conc-env.Held, conc, env.Held)
		}
		return ""
	}
}

func c06Scenarios(tier string) []*Scenario {
	bound := 2
	if tier == "thorough" {
		bound = 4
	}
	const W = 50 * time.Nanosecond
	var out []*Scenario
	add := func(name string, stack []Spec, bi int, exes []ExeSpec, bare bool, extra ...func(env *Env)) {
		conc := int(stack[bi].Conc)
		out = append(out, &Scenario{
			Name:  fmt.Sprintf("C06/%s [%s] %s", name, stackStr(stack), exesStr(exes)),
			Bound: bound, Reduce: true,
			Body: multiBody(stack, exes, MultiOpts{Reduce: true, Grace: 20 * W, Setup: c06Setup(bi, conc), Extra: extra,
				Final: c06Final(bi, conc, bare, stack[bi].BWait)}),
		})
	}
	B := func(conc uint, wait time.Duration) Spec { return Spec{Kind: KBulkhead, Conc: conc, BWait: wait} }
	hold := func(d time.Duration) []Out { return []Out{{V: 1, Dur: d}} }

	// maxConcurrency 0 admits nothing
	add("zero", []Spec{B(0, 0)}, 0, []ExeSpec{{Script: hold(10)}, {Script: hold(10), StartAt: 20}}, true)
	add("zero-wait", []Spec{B(0, W)}, 0, []ExeSpec{{Script: hold(10)}}, true)
	// two executions, no waiting
	add("two", []Spec{B(1, 0)}, 0, []ExeSpec{{Script: hold(10)}, {Script: hold(10)}}, true)
	add("two-err", []Spec{B(1, 0)}, 0, []ExeSpec{{Script: []Out{{Err: E1, Dur: 10}}}, {Script: hold(10)}}, true)
	// waiting: the permit is freed just before / exactly at / just after the wait timer
	for _, d := range []time.Duration{W - 1, W, W + 1} {
		add("wait", []Spec{B(1, W)}, 0, []ExeSpec{{Script: hold(d)}, {Script: hold(10)}}, true)
	}
	// three executions, two permits
	add("three", []Spec{B(2, W)}, 0, []ExeSpec{{Script: hold(W)}, {Script: hold(W)}, {Script: hold(10)}}, true)
	// cancellation of a waiter: before / exactly at / after the permit is freed and the timer
	for _, c := range []time.Duration{W - 1, W} {
		add("cancel-waiter", []Spec{B(1, W)}, 0, []ExeSpec{{Script: hold(W)}, {Script: hold(10), StartAt: 1, Ctx: "cancel", CancelAt: c}}, true)
		add("cancel-waiter-long", []Spec{B(1, 4*W)}, 0, []ExeSpec{{Script: hold(W)}, {Script: hold(10), StartAt: 1, Ctx: "cancel", CancelAt: c}}, true)
	}
	add("deadline-waiter", []Spec{B(1, 4*W)}, 0, []ExeSpec{{Script: hold(W)}, {Script: hold(10), StartAt: 1, Ctx: "deadline", CancelAt: W}}, true)
	// cancellation of a holder
	add("cancel-holder", []Spec{B(1, W)}, 0, []ExeSpec{{Script: []Out{{V: 1, Block: true}}, Ctx: "cancel", CancelAt: 20}, {Script: hold(10), StartAt: 1}}, true)
	add("cancel-holder-uncooperative", []Spec{B(1, 0)}, 0, []ExeSpec{{Script: hold(60), Ctx: "cancel", CancelAt: 20}, {Script: hold(10), StartAt: 30}}, true)
	// async executions and ExecutionResult.Cancel
	add("async", []Spec{B(1, W)}, 0, []ExeSpec{{Script: hold(W), Async: true}, {Script: hold(10), Async: true, CancelAsync: true, CancelAt: W}}, true)
	add("async-cancel-holder", []Spec{B(1, W)}, 0, []ExeSpec{{Script: []Out{{V: 1, Block: true}}, Async: true, CancelAsync: true, CancelAt: 20}, {Script: hold(10), StartAt: 1}}, true)
	// standalone API callers share the permits
	standalone := func(acquireAt, holdFor time.Duration, mode string) func(env *Env) {
		return func(env *Env) {
			bh := env.Bulks[0]
			if acquireAt > 0 {
				vrt.Sleep(int64(acquireAt))
			}
			ok := false
			switch mode {
			case "try":
				ok = bh.TryAcquirePermit()
			case "wait":
				ok = bh.AcquirePermitWithMaxWait(nil, W) == nil
			case "ctx":
				ctx, cancel := vcontext.WithCancel(context.Background())
				vrt.GoH("standalone-canceller", func() { vrt.Sleep(int64(W)); cancel() })
				ok = bh.AcquirePermit(ctx) == nil
			}
			if ok {
				env.held(1)
				if env.InFlight+env.Held > int(env.Stack[0].Conc) {
					vrt.Fail(fmt.Sprintf("standalone permit granted with %d functions in progress and %d permits held (maxConcurrency %d)", env.InFlight, env.Held, env.Stack[0].Conc))
				}
				vrt.Sleep(int64(holdFor))
				env.held(-1)
				bh.ReleasePermit()
			}
			env.note(fmt.Sprintf("standalone-%s=%v ", mode, ok))
		}
	}
	add("standalone-try", []Spec{B(1, W)}, 0, []ExeSpec{{Script: hold(20)}, {Script: hold(20)}}, false, standalone(0, 30, "try"))
	add("standalone-wait", []Spec{B(1, W)}, 0, []ExeSpec{{Script: hold(W)}}, false, standalone(1, 10, "wait"))
	add("standalone-ctx", []Spec{B(1, 0)}, 0, []ExeSpec{{Script: hold(W)}}, false, standalone(1, 10, "ctx"))
	add("standalone-2", []Spec{B(2, W)}, 0, []ExeSpec{{Script: hold(W)}, {Script: hold(W)}}, false, standalone(0, W, "try"))
	// a parked waiter, and a newcomer (execution, standalone TryAcquirePermit) arriving at the very instant the holder releases
	add("release-waiter-newcomer", []Spec{B(1, W)}, 0, []ExeSpec{{Script: hold(20)}, {Script: hold(10), StartAt: 1}, {Script: hold(10), StartAt: 20}}, true)
	add("release-waiter-newcomer-nowait", []Spec{B(1, W)}, 0, []ExeSpec{{Script: hold(20)}, {Script: hold(10), StartAt: 1}}, false, standalone(20, 10, "try"))
	add("release-waiter-newcomer-standalone-holder", []Spec{B(1, W)}, 0, []ExeSpec{{Script: hold(10), StartAt: 1}, {Script: hold(10), StartAt: 20}}, false, standalone(0, 20, "try"))
	// wrapped in other policies
	T := func(l time.Duration) Spec { return Spec{Kind: KTimeout, Limit: l} }
	add("timeout(bulkhead)", []Spec{T(W), B(1, 4*W)}, 1, []ExeSpec{{Script: hold(W)}, {Script: hold(10), StartAt: 1}}, false)
	add("timeout(bulkhead)-holder", []Spec{T(W), B(1, 0)}, 1, []ExeSpec{{Script: hold(3 * W)}, {Script: hold(10), StartAt: 2 * W}}, false)
	add("timeout(bulkhead)-holder-coop", []Spec{T(W), B(1, 2*W)}, 1, []ExeSpec{{Script: []Out{{V: 1, Block: true}}}, {Script: hold(10), StartAt: 1}}, false)
	add("bulkhead(timeout)", []Spec{B(1, W), T(20)}, 0, []ExeSpec{{Script: []Out{{V: 1, Block: true}}}, {Script: hold(10), StartAt: 1}}, false)
	add("retry(bulkhead)", []Spec{{Kind: KRetry, MaxRetries: 2, Delay: 10, Handle: []Cond{{K: "errs", E: bulkhead.ErrFull}}}, B(1, 0)}, 1,
		[]ExeSpec{{Script: hold(15)}, {Script: hold(10), StartAt: 1}}, false)
	add("fallback(bulkhead)", []Spec{{Kind: KFallback, FbV: 9}, B(1, 0)}, 1, []ExeSpec{{Script: hold(15)}, {Script: hold(10), StartAt: 1}}, false)
	add("hedge(bulkhead)", []Spec{{Kind: KHedge, MaxHedges: 1, HDelay: 10}, B(1, 0)}, 1, []ExeSpec{{Script: []Out{{V: 1, Dur: 30, Coop: true}, {V: 2, Dur: 5}}}}, false)
	add("hedge(bulkhead)-wait", []Spec{{Kind: KHedge, MaxHedges: 1, HDelay: 10}, B(1, W)}, 1, []ExeSpec{{Script: []Out{{V: 1, Dur: 30}, {V: 2, Dur: 5}}}}, false)
	add("hedge(bulkhead)-2", []Spec{{Kind: KHedge, MaxHedges: 2, HDelay: 10}, B(2, 0)}, 1, []ExeSpec{{Script: []Out{{V: 1, Dur: 40, Coop: true}, {V: 2, Dur: 40, Coop: true}, {V: 3, Dur: 5}}}}, false)
	// cancelled (by an enclosing Timeout, by ExecutionResult.Cancel) while holding a permit, with a policy between the bulkhead and the function
	rt := Spec{Kind: KRetry, MaxRetries: 3, Delay: 10}
	slowFail := []Out{{Err: E1, Dur: 15, Coop: true}}
	add("timeout(bulkhead(retry))", []Spec{T(W), B(2, 0), rt}, 1, []ExeSpec{{Script: slowFail}, {Script: hold(10), StartAt: 2 * W}}, false)
	add("timeout(bulkhead(fallback-failing))", []Spec{T(W), B(1, 0), {Kind: KFallback, FbE: E3}}, 1, []ExeSpec{{Script: []Out{{Err: E1, Block: true}}}, {Script: hold(10), StartAt: 2 * W}}, false)
	add("bulkhead(retry)-async-cancel", []Spec{B(1, 0), rt}, 0, []ExeSpec{{Script: slowFail, Async: true, CancelAsync: true, CancelAt: 20}, {Script: hold(10), StartAt: 2 * W}}, false)
	// an admitted execution whose own outcome is ErrFull (a full bulkhead further in, or downstream)
	add("fn-returns-ErrFull", []Spec{B(1, 0)}, 0, []ExeSpec{{Script: []Out{{Err: bulkhead.ErrFull, Dur: 10}}}, {Script: hold(10), StartAt: 20}}, false)
	add("fn-returns-wrapped-ErrFull", []Spec{B(1, W)}, 0, []ExeSpec{{Script: []Out{{Err: fmt.Errorf("downstream: %w", bulkhead.ErrFull), Dur: 10}}}, {Script: hold(10), StartAt: 1}}, false)
	add("bulkhead(bulkhead)", []Spec{B(2, 0), B(1, 0)}, 0, []ExeSpec{{Script: hold(30)}, {Script: hold(10), StartAt: 1}, {Script: hold(10), StartAt: 40}}, false)
	add("bulkhead(bulkhead)-inner", []Spec{B(2, 0), B(1, 0)}, 1, []ExeSpec{{Script: hold(30)}, {Script: hold(10), StartAt: 1}, {Script: hold(10), StartAt: 40}}, false)
	_ = retrypolicy.ErrExceeded
	_ = timeout.ErrExceeded
	return out
}

func init() {
	scenarioSets["C06"] = c06Scenarios
	register(&CheckDef{
		Property:  "C06",
		Technique: "stateless schedule exploration (preemption-bounded DFS) of concurrent executions and standalone callers through one real bulkhead under a virtual clock",
		Rule: "one execution = one complete schedule of 2-4 harness threads (sync/async executions, cancellers, standalone API callers) plus the library's own threads; the permit release, the wait timer and the cancellation " +
			"are placed at the same virtual instant so every order is explored; distinct = distinct observation logs",
		Assume: []string{"sequentially consistent interleavings at synchronisation granularity", "maxConcurrency 0 (nothing is admitted), 1 and 2",
			"instrumentation by source rewriting preserves semantics (DESIGN.md §2)"},
		Units: func(tier string) []Unit {
			var us []Unit
			for _, sc := range c06Scenarios(tier) {
				us = append(us, scenarioUnit(sc))
			}
			return us
		},
	})
}
