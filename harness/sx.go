package main

// SX: stateless, deviation-bounded depth-first exploration of schedules of the real code under vrt.

import (
	"crypto/sha256"
	"encoding/hex"
	"encoding/json"
	"fmt"
	"os"
	"path/filepath"
	"regexp"
	"strings"
	"time"

	"github.com/failsafe-go/failsafe-go/verifrt/vrt"
)

// Scenario is one closed harness: Body runs as thread 0 of a fresh execution; Check (optional)
// judges the finished execution. Body reports violations with vrt.Fail.
type Scenario struct {
	Name    string
	Bound   int // preemption bound (deviation budget)
	Leak    bool
	Horizon int
	Epoch   int64
	Body    func()
	Check   func(r *vrt.Result) string
	// AllowDeadlock: executions that end with blocked harness threads are not violations
	AllowDeadlock bool
	// Reduce: skip states already expanded with at least as much budget left. A state is
	// identified by the happens-before hash of the prefix, so two prefixes that differ only in
	// the order of independent steps are expanded once. Requires that everything the oracle
	// compares across threads is observed through scheduling points on shared objects.
	Reduce bool
}

type Violation struct {
	Property string       `json:"property"`
	Scenario string       `json:"scenario"`
	Message  string       `json:"message"`
	Choices  []vrt.Choice `json:"choices"`
	Log      []string     `json:"log"`
	Listing  []string     `json:"listing,omitempty"`
	Sig      string       `json:"signature"`
}

type Stats struct {
	Scenario       string       `json:"scenario"`
	Executions     int          `json:"executions"`
	Points         int          `json:"decision_points"`
	Steps          int          `json:"steps"`
	Outcomes       int          `json:"distinct_outcomes"`
	Nontrivial     int          `json:"executions_with_context_switch"`
	BoundCompleted int          `json:"bound_completed"`
	BoundAsked     int          `json:"bound_asked"`
	PerBound       []int        `json:"executions_per_bound"`
	HorizonHits    int          `json:"horizon_hits"`
	Capped         bool         `json:"capped"`
	MaxThreads     int          `json:"max_threads"`
	Pruned         int          `json:"executions_pruned_by_state_cache"`
	States         int          `json:"distinct_states_expanded"`
	Violations     []Violation  `json:"violations,omitempty"`
	Known          []string     `json:"known_findings,omitempty"`
	Sample         []string     `json:"sample_log,omitempty"`
	SampleSchedule []vrt.Choice `json:"sample_schedule,omitempty"`
	outcomes       map[string]int
	OutcomeLogs    map[string][]string `json:"-"`
}

func (sc *Scenario) opts(prefix []vrt.Choice, verbose bool) vrt.Options {
	return vrt.Options{Prefix: prefix, Horizon: sc.Horizon, Epoch: sc.Epoch, Verbose: verbose, LeakOracle: sc.Leak}
}

// judge returns the violation message of one finished execution ("" if none).
func (sc *Scenario) judge(r *vrt.Result) string {
	if rep := newRaceReports(); rep != "" {
		return "data race: " + raceSummary(rep) + "\n" + rep
	}
	switch {
	case r.Diverged != "":
		return "INFRA: " + r.Diverged
	case r.Panic != "":
		return "panic: " + r.Panic
	case r.Fail != "":
		return r.Fail
	case r.Deadlock != "" && !sc.AllowDeadlock:
		return "deadlock: " + r.Deadlock
	case len(r.Leaks) > 0:
		return "leak: " + strings.Join(r.Leaks, "; ")
	case r.LateFail != "":
		return r.LateFail
	}
	if r.HorizonHit {
		return ""
	}
	if sc.Check != nil {
		return sc.Check(r)
	}
	return ""
}

func outcomeKey(r *vrt.Result) string {
	h := sha256.New()
	for _, l := range r.Log {
		h.Write([]byte(l))
		h.Write([]byte{0})
	}
	return hex.EncodeToString(h.Sum(nil)[:8])
}

func choicesOf(tr []vrt.Decision, n int) []vrt.Choice {
	out := make([]vrt.Choice, n)
	for i := 0; i < n; i++ {
		out[i] = vrt.Choice{C: tr[i].Chosen, N: tr[i].N}
	}
	return out
}

// Explore enumerates every schedule of sc whose number of deviations is at most sc.Bound,
// iterating the bound from 0. deadline (zero = none) ends the run early with Capped = true.
func Explore(sc *Scenario, deadline time.Time, stopAtFirst bool) *Stats {
	st := &Stats{Scenario: sc.Name, BoundAsked: sc.Bound, BoundCompleted: -1, outcomes: map[string]int{}}
	seenViol := map[string]bool{}
	if sc.Reduce {
		sc.exploreReduced(st, deadline, stopAtFirst, seenViol)
		st.Outcomes = len(st.outcomes)
		return st
	}
	for b := 0; b <= sc.Bound; b++ {
		n := 0
		done := sc.dfs(b, st, deadline, stopAtFirst, seenViol, &n)
		st.PerBound = append(st.PerBound, n)
		if !done {
			st.Capped = true
			break
		}
		st.BoundCompleted = b
		if stopAtFirst && len(st.Violations) > 0 {
			break
		}
	}
	st.Outcomes = len(st.outcomes)
	return st
}

var debugOutcomes = os.Getenv("VERIF_DEBUG_OUTCOMES") != ""

type frame struct {
	prefix []vrt.Choice
	spent  int
}

func (sc *Scenario) dfs(bound int, st *Stats, deadline time.Time, stopAtFirst bool, seen map[string]bool, count *int) bool {
	stack := []frame{{nil, 0}}
	for len(stack) > 0 {
		if !deadline.IsZero() && *count%64 == 0 && time.Now().After(deadline) {
			return false
		}
		f := stack[len(stack)-1]
		stack = stack[:len(stack)-1]
		r := vrt.Execute(sc.opts(f.prefix, false), sc.Body)
		*count++
		// only count an execution once over the iterated bounds: the one whose cost equals bound,
		// or every one at the final statistics level (cheap: we count all at the largest bound run)
		cost := f.spent
		if cost == bound || (bound == 0 && cost == 0) {
			st.Executions++
			st.Points += len(r.Trace)
			st.Steps += r.Steps
			if r.Switches > 0 {
				st.Nontrivial++
			}
			if r.HorizonHit {
				st.HorizonHits++
			}
			if r.Threads > st.MaxThreads {
				st.MaxThreads = r.Threads
			}
			k := outcomeKey(r)
			if debugOutcomes && st.outcomes[k] == 0 {
				if st.OutcomeLogs == nil {
					st.OutcomeLogs = map[string][]string{}
				}
				st.OutcomeLogs[k] = r.Log
			}
			if st.outcomes[k] == 0 && len(st.outcomes) < 1 {
				st.Sample = r.Log
				st.SampleSchedule = choicesOf(r.Trace, len(r.Trace))
			}
			st.outcomes[k]++
		}
		if msg := sc.judge(r); msg != "" && !r.Pruned && (cost == bound || bound == 0) {
			v := sc.confirm(choicesOf(r.Trace, len(r.Trace)), msg)
			if !seen[v.Sig] {
				seen[v.Sig] = true
				st.Violations = append(st.Violations, v)
			}
			if stopAtFirst || strings.HasPrefix(msg, "INFRA") {
				return true
			}
			continue
		}
		// alternatives after the prefix (later points first, so the stack pops earlier points last)
		spent := f.spent
		for i := len(f.prefix); i < len(r.Trace); i++ {
			d := r.Trace[i]
			for alt := d.N - 1; alt >= 1; alt-- {
				c := spent
				if d.Costly {
					c++
				}
				if c > bound {
					continue
				}
				np := make([]vrt.Choice, i+1)
				copy(np, choicesOf(r.Trace, i))
				np[i] = vrt.Choice{C: alt, N: d.N}
				stack = append(stack, frame{np, c})
			}
		}
	}
	return true
}

// exploreReduced: best-first by deviations spent, with a cache of expanded states. A state is the
// happens-before hash of the prefix (plus the baton holder and the clock); because frames are
// processed in order of cost, a state is first reached with the least cost and never re-expanded.
func (sc *Scenario) exploreReduced(st *Stats, deadline time.Time, stopAtFirst bool, seen map[string]bool) {
	buckets := make([][]frame, sc.Bound+1)
	buckets[0] = []frame{{nil, 0}}
	visited := map[vrt.H]int{}
	n := 0
	selfHit := false
	for c := 0; c <= sc.Bound; c++ {
		cnt := 0
		for len(buckets[c]) > 0 {
			if !deadline.IsZero() && n%64 == 0 && time.Now().After(deadline) {
				st.Capped = true
				st.PerBound = append(st.PerBound, cnt)
				st.States = len(visited)
				return
			}
			f := buckets[c][len(buckets[c])-1]
			buckets[c] = buckets[c][:len(buckets[c])-1]
			o := sc.opts(f.prefix, false)
			o.OnPoint = func(idx int, fp vrt.H) bool {
				if by, ok := visited[fp]; ok {
					if by == n {
						selfHit = true // two decision points of one execution with the same fingerprint: the state hash misses something
					}
					return false
				}
				visited[fp] = n
				return true
			}
			r := vrt.Execute(o, sc.Body)
			n++
			cnt++
			if selfHit {
				st.Violations = append(st.Violations, Violation{Scenario: sc.Name, Message: "INFRA: state fingerprint unchanged between two decision points of one execution", Sig: "INFRA selfhit"})
				return
			}
			if r.Pruned {
				st.Pruned++
			} else {
				st.Executions++
				if r.Switches > 0 {
					st.Nontrivial++
				}
				if r.HorizonHit {
					st.HorizonHits++
				}
				k := outcomeKey(r)
				if debugOutcomes && st.outcomes[k] == 0 {
					if st.OutcomeLogs == nil {
						st.OutcomeLogs = map[string][]string{}
					}
					st.OutcomeLogs[k] = r.Log
				}
				if len(st.outcomes) == 0 {
					st.Sample = r.Log
					st.SampleSchedule = choicesOf(r.Trace, len(r.Trace))
				}
				st.outcomes[k]++
			}
			st.Points += len(r.Trace) - len(f.prefix)
			st.Steps += r.Steps
			if r.Threads > st.MaxThreads {
				st.MaxThreads = r.Threads
			}
			if !r.Pruned {
				if msg := sc.judge(r); msg != "" {
					v := sc.confirm(choicesOf(r.Trace, len(r.Trace)), msg)
					if !seen[v.Sig] {
						seen[v.Sig] = true
						st.Violations = append(st.Violations, v)
					}
					if stopAtFirst || strings.HasPrefix(msg, "INFRA") {
						st.States = len(visited)
						return
					}
					continue
				}
			}
			for i := len(f.prefix); i < len(r.Trace); i++ {
				d := r.Trace[i]
				for alt := d.N - 1; alt >= 1; alt-- {
					cc := f.spent
					if d.Costly {
						cc++
					}
					if cc > sc.Bound {
						continue
					}
					np := make([]vrt.Choice, i+1)
					copy(np, choicesOf(r.Trace, i))
					np[i] = vrt.Choice{C: alt, N: d.N}
					buckets[cc] = append(buckets[cc], frame{np, cc})
				}
			}
		}
		st.PerBound = append(st.PerBound, cnt)
		st.BoundCompleted = c
	}
	st.States = len(visited)
}

// confirm replays a violating schedule 5 times and checks that the observation is identical.
func (sc *Scenario) confirm(choices []vrt.Choice, msg string) Violation {
	v := Violation{Scenario: sc.Name, Message: msg, Choices: choices}
	var first string
	for i := 0; i < 5; i++ {
		r := vrt.Execute(sc.opts(choices, i == 0 && !vrt.RaceBuild), sc.Body)
		m := sc.judge(r)
		if strings.HasPrefix(msg, "data race") {
			// the detector reports each pair of stacks once per process: a race cannot be re-observed
			v.Log = r.Log
			break
		}
		// the source position of a blocked thread is only captured by the verbose (first) replay
		obs := whereRE.ReplaceAllString(m, "@;") + "\x00" + strings.Join(r.Log, "\x00")
		if i == 0 {
			if whereRE.ReplaceAllString(m, "@;") == whereRE.ReplaceAllString(msg, "@;") {
				v.Message = m
			}
			first = obs
			v.Log = r.Log
			v.Listing = r.Listing
		} else if obs != first {
			v.Message = "INFRA: nondeterministic replay (" + msg + ")"
			if os.Getenv("VERIF_DEBUG_CONFIRM") != "" {
				fmt.Fprintf(os.Stderr, "confirm divergence run %d:\n first: %q\n now:   %q\n", i, first, obs)
			}
			break
		}
	}
	v.Sig = signature(sc.Name, v.Message)
	return v
}

var whereRE = regexp.MustCompile(`@[^; ]*;`)

// signature identifies a failure by scenario and the shape of its message (digits normalised).
func signature(scenario, msg string) string {
	if i := strings.IndexByte(msg, '\n'); i >= 0 {
		msg = msg[:i]
	}
	var sb strings.Builder
	for _, r := range msg {
		if r >= '0' && r <= '9' {
			if s := sb.String(); len(s) > 0 && s[len(s)-1] == '#' {
				continue
			}
			sb.WriteByte('#')
			continue
		}
		sb.WriteRune(r)
	}
	return scenario + " :: " + sb.String()
}

func writeReplay(dir, property string, v Violation) string {
	v.Property = property
	os.MkdirAll(dir, 0o755)
	h := sha256.Sum256([]byte(v.Sig + fmt.Sprint(v.Choices)))
	p := filepath.Join(dir, fmt.Sprintf("%s-%s.json", property, hex.EncodeToString(h[:6])))
	b, _ := json.MarshalIndent(v, "", " ")
	os.WriteFile(p, b, 0o644)
	return p
}

// replay re-runs exactly one recorded schedule (no exploration) and prints the annotated steps.
func replay(path string) int {
	b, err := os.ReadFile(path)
	if err != nil {
		fmt.Println(err)
		return 2
	}
	var v Violation
	if err := json.Unmarshal(b, &v); err != nil {
		fmt.Println(err)
		return 2
	}
	for _, sc := range append(scenariosOf(v.Property, "quick"), scenariosOf(v.Property, "thorough")...) {
		if sc.Name != v.Scenario {
			continue
		}
		r := vrt.Execute(sc.opts(v.Choices, !vrt.RaceBuild), sc.Body)
		msg := sc.judge(r)
		fmt.Println("scenario:", sc.Name)
		for _, l := range r.Listing {
			fmt.Println("  ", l)
		}
		fmt.Println("observations:")
		for _, l := range r.Log {
			fmt.Println("  ", l)
		}
		if msg == "" {
			fmt.Println("replay: no violation on this tree")
			return 0
		}
		fmt.Printf("VIOLATION property=%s replay=%s\n  %s\n", v.Property, path, msg)
		return 1
	}
	if v.Property == "C12" && strings.HasPrefix(v.Scenario, "C12/deep/") {
		for _, c := range c12DeepCases() {
			if "C12/deep/"+c.name == v.Scenario {
				var msg string
				vrt.Execute(vrt.Options{}, func() { msg = strings.Join(c.run(), "; ") })
				if msg != "" {
					fmt.Printf("VIOLATION property=C12 replay=%s\n  %s\n", path, msg)
					return 1
				}
				fmt.Println("replay: no violation on this tree")
				return 0
			}
		}
	}
	if v.Property == "C12" && strings.HasPrefix(v.Scenario, "C12/history/") {
		var hist []outcome
		for _, o := range c12Outcomes() {
			if o.v == 0 || o.err == nil {
				hist = append(hist, o)
			}
		}
		for variant := 0; variant < 4; variant++ {
			for _, ks := range orderedSubsets() {
				conds := c12Conds(ks, variant)
				if "C12/history/"+condStr(conds) != v.Scenario {
					continue
				}
				for _, first := range hist {
					var msg string
					vrt.Execute(vrt.Options{}, func() { msg = c12History(conds, first, hist) })
					if msg != "" {
						fmt.Printf("VIOLATION property=C12 replay=%s\n  %s\n", path, msg)
						return 1
					}
				}
				fmt.Println("replay: no violation on this tree")
				return 0
			}
		}
	}
	if v.Property == "C12" {
		for variant := 0; variant < 9; variant++ {
			for _, ks := range orderedSubsets() {
				conds := c12Conds(ks, variant)
				if "C12/"+condStr(conds) != v.Scenario {
					continue
				}
				for _, o := range c12Outcomes() {
					var msg string
					vrt.Execute(vrt.Options{}, func() { msg = c12Case(conds, o) })
					if msg != "" {
						fmt.Printf("VIOLATION property=C12 replay=%s\n  %s\n", path, msg)
						return 1
					}
				}
				fmt.Println("replay: no violation on this tree")
				return 0
			}
		}
	}
	// BX violations: the operation history is in the log
	if f := bxSystemSets[v.Property]; f != nil {
		for _, tier := range []string{"quick", "thorough"} {
			for _, sys := range f(tier) {
				if sys.Name != v.Scenario {
					continue
				}
				msg := ""
				r := vrt.Execute(vrt.Options{Epoch: sys.Epoch}, func() {
					run := sys.New()
					for i, op := range v.Log {
						fmt.Printf("   %d: %s\n", i, op)
						if m := run.Apply(op); m != "" {
							msg = m
							return
						}
						if m := run.Probe(); m != "" {
							msg = m
							return
						}
					}
				})
				if r.Panic != "" {
					msg = "panic: " + r.Panic
				}
				if msg == "" {
					fmt.Println("replay: no violation on this tree")
					return 0
				}
				fmt.Printf("VIOLATION property=%s replay=%s\n  %s\n", v.Property, path, msg)
				return 1
			}
		}
	}
	fmt.Println("scenario not found:", v.Scenario)
	return 2
}

var bxSystemSets = map[string]func(tier string) []*BXSystem{}
