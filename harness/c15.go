package main

// C15 — Async results follow the future protocol and agree with sync execution (SX + differential).

import (
	"context"
	"errors"
	"fmt"
	"strings"
	"time"

	"github.com/failsafe-go/failsafe-go"
	"github.com/failsafe-go/failsafe-go/verifrt/vrt"
	"github.com/failsafe-go/failsafe-go/verifrt/vsync"
)

type c15Case struct {
	name     string
	stack    []Spec
	script   []Out
	entry    string        // "Get", "GetWithExecution", "Run", "RunWithExecution"
	readers  [][]string    // per reader thread: sequence of "done", "isdone", "get", "result", "error"
	cancelAt time.Duration // <0: no Cancel
	pv       int
	pe       error
	pinvs    int
}

func (c *c15Case) body() {
	env := NewEnv(c.stack)
	env.Reduce = true
	x := env.NewExe(c.script)
	listenersReturned := false
	doneClosedSeen := false
	ex := failsafe.NewExecutor[int](env.Policies...).
		OnSuccess(func(e failsafe.ExecutionDoneEvent[int]) { env.doneEv(-1, "success")(e) }).
		OnFailure(func(e failsafe.ExecutionDoneEvent[int]) { env.doneEv(-1, "failure")(e) }).
		OnDone(func(e failsafe.ExecutionDoneEvent[int]) {
			env.doneEv(-1, "done")(e)
			env.obs()
			listenersReturned = true
		})
	var res failsafe.ExecutionResult[int]
	isRun := strings.HasPrefix(c.entry, "Run")
	switch c.entry {
	case "Get":
		res = ex.GetAsync(func() (int, error) { return x.Fn(nopExec{}) })
	case "GetWithExecution":
		res = ex.GetWithExecutionAsync(x.Fn)
	case "Run":
		res = ex.RunAsync(func() error { _, err := x.Fn(nopExec{}); return err })
	case "RunWithExecution":
		res = ex.RunWithExecutionAsync(func(e failsafe.Execution[int]) error { _, err := x.Fn(e); return err })
	}
	type obsv struct {
		v   int
		err error
	}
	var seen []obsv
	var wg vsync.WaitGroup
	mustCancel := false
	cancelled := false
	if c.cancelAt >= 0 {
		wg.Add(1)
		vrt.GoH("canceller", func() {
			defer wg.Done()
			vrt.Sleep(int64(c.cancelAt))
			env.obs()
			wasDone := res.IsDone()
			res.Cancel()
			env.obs()
			cancelled = true
			// Cancel has returned: it "took effect before the execution completed" if an invocation is
			// still running or the program had more invocations to make
			returned := 0
			for _, inv := range x.Invs {
				if inv.Returned {
					returned++
				}
			}
			if !wasDone && (env.InFlight > 0 || returned < c.pinvs || len(x.Invs) == 0) {
				mustCancel = true
			}
		})
	}
	for ri, ops := range c.readers {
		ops := ops
		wg.Add(1)
		vrt.GoH(fmt.Sprintf("reader%d", ri), func() {
			defer wg.Done()
			sawDone := false
			for _, op := range ops {
				switch op {
				case "done":
					vrt.Recv(res.Done())
					env.obs()
					sawDone, doneClosedSeen = true, true
					if !listenersReturned {
						vrt.Fail("Done was closed before the executor's completion listeners had returned")
						return
					}
				case "isdone":
					d := res.IsDone()
					env.obs()
					if d && !listenersReturned {
						vrt.Fail("IsDone() was true before the executor's completion listeners had returned")
						return
					}
					if !d && sawDone {
						vrt.Fail("IsDone() was false after Done was closed")
						return
					}
				case "get":
					v, err := res.Get()
					env.obs()
					sawDone = true
					if !listenersReturned {
						vrt.Fail("Get() returned before the executor's completion listeners had returned")
						return
					}
					seen = append(seen, obsv{v, err})
				case "result":
					v := res.Result()
					env.obs()
					sawDone = true
					seen = append(seen, obsv{v, errUnknown})
				case "error":
					err := res.Error()
					env.obs()
					sawDone = true
					seen = append(seen, obsv{-12345, err})
				}
			}
		})
	}
	wg.Wait()
	v, err := res.Get()
	if !res.IsDone() {
		vrt.Fail("IsDone() false after Get() returned")
		return
	}
	// a second close would have panicked; closing exactly once also means Done stays closed
	select {
	case <-res.Done():
	default:
		vrt.Fail("Done not closed after Get() returned")
		return
	}
	vrt.Mark(fmt.Sprintf("result=(%d,%s) invs=%d cancelled=%v must=%v", v, errStr(err), len(x.Invs), cancelled, mustCancel))
	for _, o := range seen {
		if (o.v != -12345 && o.v != v) || (o.err != errUnknown && o.err != err) {
			vrt.Fail(fmt.Sprintf("readers saw different values: (%d,%v) vs final (%d,%v)", o.v, o.err, v, err))
			return
		}
	}
	// the executor's completion listeners ran once and tell what the callers got
	var done []Event
	nVerdict := 0
	for _, e := range env.Events {
		if e.Policy == -1 && e.Name == "done" {
			done = append(done, e)
		}
		if e.Policy == -1 && (e.Name == "success" || e.Name == "failure") {
			nVerdict++
		}
	}
	if len(done) != 1 || nVerdict != 1 {
		vrt.Fail(fmt.Sprintf("executor listeners: OnDone x%d, OnSuccess/OnFailure x%d", len(done), nVerdict))
		return
	}
	if (done[0].V != v && !isRunEntry(c.entry)) || done[0].E != err {
		vrt.Fail(fmt.Sprintf("OnDone reported (%d,%v), the ExecutionResult holds (%d,%v)", done[0].V, done[0].E, v, err))
		return
	}
	// agreement with the synchronous execution of the same program
	pv := c.pv
	if isRun {
		pv = 0
	}
	isPlain := v == pv && err == c.pe
	isCancelErr := errors.Is(err, failsafe.ErrExecutionCanceled)
	underRetryOrHedge := false
	for _, s := range c.stack {
		if s.Kind == KRetry || s.Kind == KHedge {
			underRetryOrHedge = true
		}
	}
	switch {
	case c.cancelAt < 0:
		if !isPlain {
			vrt.Fail(fmt.Sprintf("async execution returned (%d,%v), the equivalent synchronous execution returns (%d,%v)", v, err, pv, c.pe))
		}
	case mustCancel && underRetryOrHedge:
		if !isCancelErr {
			vrt.Fail(fmt.Sprintf("Cancel() returned before the execution completed, but the result is (%d,%v) instead of ErrExecutionCanceled", v, err))
		}
	case !underRetryOrHedge:
		// claimed only for executions under a retry or hedge policy; elsewhere the function's own
		// outcome after the cancellation, the context error and ErrExecutionCanceled are all accepted
		last := c.script[min(len(x.Invs), len(c.script))-1]
		fnOutcome := len(x.Invs) > 0 && v == last.V && err == last.Err
		if !isPlain && !isCancelErr && !errors.Is(err, context.Canceled) && !fnOutcome {
			vrt.Fail(fmt.Sprintf("cancelled async execution returned (%d,%v)", v, err))
		}
	default:
		if !isPlain && !isCancelErr {
			vrt.Fail(fmt.Sprintf("cancelled async execution returned (%d,%v); want ErrExecutionCanceled or the synchronous outcome (%d,%v)", v, err, pv, c.pe))
		}
	}
	_ = doneClosedSeen
}

// c15ReuseBody: one Executor value used for several executions. An execution started from it, before
// or after another one is cancelled through its ExecutionResult, returns what it returns on its own.
func c15ReuseBody(stack []Spec, script1, script2 []Out, cancelAt, secondAt time.Duration, second string) func() {
	pv, pe, pinvs := plainOutcome(stack, script2)
	return func() {
		env := NewEnv(stack)
		env.Reduce = true
		x1, x2 := env.NewExe(script1), env.NewExe(script2)
		ex := failsafe.NewExecutor[int](env.Policies...)
		r1 := ex.GetWithExecutionAsync(x1.Fn)
		var wg vsync.WaitGroup
		if cancelAt >= 0 {
			wg.Add(1)
			vrt.GoH("canceller", func() {
				defer wg.Done()
				vrt.Sleep(int64(cancelAt))
				env.obs()
				r1.Cancel()
				env.obs()
			})
		}
		var v int
		var err error
		wg.Add(1)
		vrt.GoH("second", func() {
			defer wg.Done()
			if secondAt < 0 {
				r1.Get()
			} else {
				vrt.Sleep(int64(secondAt))
			}
			env.obs()
			switch second {
			case "async":
				v, err = ex.GetWithExecutionAsync(x2.Fn).Get()
			case "sync":
				v, err = ex.GetWithExecution(x2.Fn)
			case "run-async":
				err = ex.RunWithExecutionAsync(func(e failsafe.Execution[int]) error { var e2 error; v, e2 = x2.Fn(e); return e2 }).Error()
			}
			env.obs()
		})
		wg.Wait()
		r1.Get()
		vrt.Mark(fmt.Sprintf("second=(%d,%s) invs=%d", v, errStr(err), len(x2.Invs)))
		if v != pv || (err != pe && !(err != nil && pe != nil && err.Error() == pe.Error())) || len(x2.Invs) != pinvs {
			vrt.Fail(fmt.Sprintf("the second execution from the reused Executor returned (%d,%v) after %d invocations; on its own it returns (%d,%v) after %d", v, err, len(x2.Invs), pv, pe, pinvs))
		}
	}
}

func isRunEntry(entry string) bool { return strings.HasPrefix(entry, "Run") }

var errUnknown = errors.New("unknown")

// nopExec stands in for the Execution in entry points that do not pass one to the function.
type nopExec struct{ failsafe.Execution[int] }

func (nopExec) Attempts() int             { return 0 }
func (nopExec) Executions() int           { return 0 }
func (nopExec) Retries() int              { return 0 }
func (nopExec) Hedges() int               { return 0 }
func (nopExec) IsHedge() bool             { return false }
func (nopExec) IsRetry() bool             { return false }
func (nopExec) IsFirstAttempt() bool      { return false }
func (nopExec) IsCanceled() bool          { return false }
func (nopExec) LastResult() int           { return 0 }
func (nopExec) LastError() error          { return nil }
func (nopExec) Canceled() <-chan struct{} { return nil }
func (nopExec) Context() context.Context  { return context.Background() }

func c15Scenarios(tier string) []*Scenario {
	bound := 2
	if tier == "thorough" {
		bound = 4
	}
	var out []*Scenario
	add := func(c *c15Case) {
		blocks := false
		for _, o := range c.script {
			if o.Block {
				blocks = true
			}
		}
		hasTimeout := false
		for _, sp := range c.stack {
			if sp.Kind == KTimeout && sp.Limit < 500 {
				hasTimeout = true
			}
		}
		if blocks && !hasTimeout {
			c.pv, c.pe, c.pinvs = -999, errNever, 1<<30
		} else {
			c.pv, c.pe, c.pinvs = plainOutcome(c.stack, c.script)
		}
		cs := "none"
		if c.cancelAt >= 0 {
			cs = fmt.Sprint(int64(c.cancelAt))
		}
		out = append(out, &Scenario{
			Name:  fmt.Sprintf("C15/%s/%s [%s] script=%s readers=%v cancel@%s", c.name, c.entry, stackStr(c.stack), scriptStr(c.script), c.readers, cs),
			Bound: bound, Reduce: true,
			Body: c.body,
		})
	}
	retry := Spec{Kind: KRetry, MaxRetries: 2, Delay: 20}
	hedge := Spec{Kind: KHedge, MaxHedges: 1, HDelay: 20, Cancel: []Cond{{K: "result", V: 1}}}
	coop := func(d time.Duration, err error, v int) Out { return Out{V: v, Err: err, Dur: d, Coop: true} }
	failing := []Out{coop(10, E1, 0), coop(10, E1, 0), coop(10, nil, 1)}
	entries := []string{"Get", "GetWithExecution", "Run", "RunWithExecution"}
	readerSets := [][][]string{
		{{"done", "isdone", "get"}},
		{{"isdone", "get", "isdone"}, {"done", "result", "error"}},
		{{"get"}, {"get"}, {"isdone", "done"}},
	}
	// no cancellation: protocol + sync/async differential
	for i, e := range entries {
		add(&c15Case{name: "plain", stack: nil, script: []Out{{V: 1, Dur: 10}}, entry: e, readers: readerSets[i%3], cancelAt: -1})
		add(&c15Case{name: "plain-err", stack: nil, script: []Out{{Err: E1}}, entry: e, readers: readerSets[(i+1)%3], cancelAt: -1})
		add(&c15Case{name: "retry", stack: []Spec{retry}, script: failing, entry: e, readers: readerSets[(i+2)%3], cancelAt: -1})
	}
	// an outcome that carries a result and an error at once, read through every getter
	for i, st := range [][]Spec{nil, {{Kind: KRetry, MaxRetries: 1, ReturnLast: true}}, {{Kind: KBreaker, FT: 5, FC: 5, BDelay: 1000}}} {
		add(&c15Case{name: "result-and-error", stack: st, script: []Out{{V: 7, Err: E1, Dur: 5}}, entry: entries[i%2], readers: readerSets[1], cancelAt: -1})
	}
	add(&c15Case{name: "retry-exceeded", stack: []Spec{retry}, script: []Out{{Err: E1}}, entry: "Get", readers: readerSets[1], cancelAt: -1})
	add(&c15Case{name: "hedge", stack: []Spec{hedge}, script: []Out{coop(50, nil, 1), coop(5, nil, 1)}, entry: "GetWithExecution", readers: readerSets[1], cancelAt: -1})
	add(&c15Case{name: "timeout", stack: []Spec{{Kind: KTimeout, Limit: 20}}, script: []Out{{V: 1, Block: true}}, entry: "GetWithExecution", readers: readerSets[0], cancelAt: -1})
	add(&c15Case{name: "fallback", stack: []Spec{{Kind: KFallback, FbV: 9}}, script: []Out{{Err: E1, Dur: 5}}, entry: "Get", readers: readerSets[2], cancelAt: -1})
	add(&c15Case{name: "timeout(retry)", stack: []Spec{{Kind: KTimeout, Limit: 1000}, retry}, script: failing, entry: "Get", readers: readerSets[0], cancelAt: -1})
	// Cancel at every kind of instant: before the first attempt, inside attempts, at attempt ends,
	// inside delays, at delay ends, after completion
	for _, at := range []time.Duration{0, 5, 10, 20, 30, 35, 45, 70, 100} {
		e := entries[int(at)%4]
		add(&c15Case{name: "retry-cancel", stack: []Spec{retry}, script: failing, entry: e, readers: readerSets[0], cancelAt: at})
	}
	for _, at := range []time.Duration{5, 35, 45} {
		add(&c15Case{name: "timeout(retry)-cancel", stack: []Spec{{Kind: KTimeout, Limit: 1000}, retry}, script: failing, entry: "GetWithExecution", readers: readerSets[0], cancelAt: at})
		add(&c15Case{name: "fallback(retry)-cancel", stack: []Spec{{Kind: KFallback, FbV: 9}, retry}, script: failing, entry: "GetWithExecution", readers: readerSets[0], cancelAt: at})
	}
	for _, at := range []time.Duration{5, 20, 25} {
		add(&c15Case{name: "hedge-cancel", stack: []Spec{hedge}, script: []Out{coop(100, E1, 0), coop(100, E1, 0)}, entry: "GetWithExecution", readers: readerSets[1], cancelAt: at})
	}
	add(&c15Case{name: "retry-cancel-blocking", stack: []Spec{retry}, script: []Out{{Err: E1, Block: true}}, entry: "GetWithExecution", readers: readerSets[2], cancelAt: 15})
	add(&c15Case{name: "bare-cancel", stack: nil, script: []Out{{V: 1, Block: true}}, entry: "GetWithExecution", readers: readerSets[0], cancelAt: 15})
	// Cancel while a function that ignores cancellation runs, under nothing / policies that do not react to cancellation
	for i, st := range [][]Spec{nil, {{Kind: KBreaker, FT: 2, FC: 2, BDelay: 1000}}, {{Kind: KBulkhead, Conc: 1}}, {{Kind: KFallback, FbV: 9}}, {{Kind: KCache, Key: "a"}}, {retry}} {
		add(&c15Case{name: "cancel-uncooperative", stack: st, script: []Out{{V: 1, Dur: 30}}, entry: entries[i%4], readers: readerSets[0], cancelAt: 15})
		add(&c15Case{name: "cancel-uncooperative-err", stack: st, script: []Out{{Err: E1, Dur: 30}}, entry: entries[(i+1)%4], readers: readerSets[0], cancelAt: 15})
	}
	// Cancel, then a Timeout inside the retry / hedge policy expires before the (slow to react) attempt returns
	for _, st := range [][]Spec{{retry, {Kind: KTimeout, Limit: 25}}, {hedge, {Kind: KTimeout, Limit: 25}}} {
		add(&c15Case{name: "cancel-then-inner-timeout", stack: st, script: []Out{{Err: E1, Dur: 40}}, entry: "GetWithExecution", readers: readerSets[0], cancelAt: 10})
		add(&c15Case{name: "cancel-then-inner-timeout-blocking", stack: st, script: []Out{{Err: E1, Block: true, Dur: 30}}, entry: "RunWithExecution", readers: readerSets[0], cancelAt: 10})
	}
	add(&c15Case{name: "retry-cancel-slow-return", stack: []Spec{retry}, script: []Out{{Err: E1, Block: true, Dur: 30}}, entry: "GetWithExecution", readers: readerSets[0], cancelAt: 15})
	// one Executor value reused: after a cancelled execution, after a completed one, and overlapping one that is cancelled
	okAfter := []Out{coop(10, E1, 0), coop(10, nil, 1)}
	for _, st := range [][]Spec{{retry}, {hedge}, {{Kind: KFallback, FbV: 9}, retry}, nil} {
		for _, second := range []string{"async", "sync", "run-async"} {
			for _, c := range []struct{ cancelAt, secondAt time.Duration }{{15, -1}, {-1, -1}, {15, 5}, {15, 15}, {15, 25}} {
				c := c
				name := fmt.Sprintf("C15/reuse/%s [%s] first=%s cancel@%d second=%s@%d", second, stackStr(st), scriptStr(failing), int64(c.cancelAt), scriptStr(okAfter), int64(c.secondAt))
				out = append(out, &Scenario{Name: name, Bound: bound, Reduce: true, Body: c15ReuseBody(st, failing, okAfter, c.cancelAt, c.secondAt, second)})
			}
		}
	}
	return out
}

func init() {
	scenarioSets["C15"] = c15Scenarios
	register(&CheckDef{
		Property:  "C15",
		Technique: "stateless schedule exploration (deviation-bounded, happens-before state cache) of the async runner, concurrent readers of the ExecutionResult and a canceller, with a sync/async differential",
		Rule: "one execution = one complete schedule of the async runner thread, 1-3 reader threads each doing a sequence of Done/IsDone/Get/Result/Error, an optional Cancel at a chosen virtual instant, for all four async entry points; " +
			"the expected values come from running the same program synchronously; plus one Executor value reused for a second execution (sync and async) after, and overlapping with, an execution that is cancelled; distinct = distinct observation logs",
		Assume: []string{"IsDone may become true one step before Done is closed (no lock-free implementation can make the two atomic); what is required: Done closed => IsDone true for ever, IsDone true => listeners have run",
			"a Cancel 'takes effect before completion' when it has returned while an invocation is still running or the program still had invocations to make"},
		Units: func(tier string) []Unit {
			var us []Unit
			for _, sc := range c15Scenarios(tier) {
				us = append(us, scenarioUnit(sc))
			}
			return us
		},
	})
}
