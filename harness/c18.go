package main

// C18 — HTTP and gRPC adapters are transparent and replay requests faithfully (PX under vrt, fake transports).
// The same harness serves the HTTP/gRPC part of C19 (leak oracle, closed responses).

import (
	"bytes"
	"context"
	"encoding/json"
	"errors"
	"fmt"
	"io"
	"net/http"
	"net/url"
	"os"
	"os/exec"
	"strings"
	"time"

	"github.com/failsafe-go/failsafe-go"
	"github.com/failsafe-go/failsafe-go/circuitbreaker"
	"github.com/failsafe-go/failsafe-go/failsafehttp"
	"github.com/failsafe-go/failsafe-go/fallback"
	"github.com/failsafe-go/failsafe-go/hedgepolicy"
	"github.com/failsafe-go/failsafe-go/retrypolicy"
	"github.com/failsafe-go/failsafe-go/timeout"
	"github.com/failsafe-go/failsafe-go/verifrt/vcontext"
	"github.com/failsafe-go/failsafe-go/verifrt/vrt"
)

type ctxKeyT string

const callerKey ctxKeyT = "caller"
const execKey ctxKeyT = "exec"

// srvStep is the scripted behaviour of the server for one attempt.
type srvStep struct {
	Status     int
	RetryAfter string
	Err        error
	Body       string
	Think      time.Duration // virtual time before the response headers; aborted when the request context ends
	Stream     time.Duration // the body only becomes readable this long after the headers
	Partial    int           // >0: the attempt fails with Err after only this many bytes of the request body were read (connection reset during the upload)
}

func (s srvStep) String() string {
	x := fmt.Sprint(s.Status)
	if s.Err != nil {
		x = "err(" + s.Err.Error() + ")"
	}
	if s.RetryAfter != "" {
		x += "+RA" + s.RetryAfter
	}
	if s.Partial != 0 {
		x += fmt.Sprintf("/afterReading%d", s.Partial)
	}
	if s.Think != 0 {
		x += fmt.Sprintf("/think%d", int64(s.Think))
	}
	if s.Stream != 0 {
		x += fmt.Sprintf("/stream%d", int64(s.Stream))
	}
	return x
}

type fakeBody struct {
	ctx     context.Context
	data    *bytes.Reader
	readyAt int64
	closed  bool
}

func (b *fakeBody) Read(p []byte) (int, error) {
	if b.closed {
		return 0, errors.New("http: read on closed response body")
	}
	if d := b.readyAt - vrt.Elapsed(); d > 0 {
		tm := vrt.NewTimer(d, false)
		switch vrt.Select(false, vrt.R(tm.C), vrt.R(b.ctx.Done())) {
		case 0:
			<-tm.C
		case 1:
			tm.StopQuiet()
		}
	}
	// like net/http's transport: once the request's context is done, reading the body fails
	if err := b.ctx.Err(); err != nil {
		return 0, err
	}
	return b.data.Read(p)
}

func (b *fakeBody) Close() error { b.closed = true; return nil }

type attemptRec struct {
	Method, URL string
	Header      http.Header
	Body        []byte
	BodyErr     error
	At          int64
	Ctx         context.Context
	CallerVal   any
	Deadline    time.Time
	HasDeadline bool
	Resp        *http.Response
	RespBody    *fakeBody
	Err         error
	Returned    int64
	PartialRead bool // the scripted failure came before the whole request body was read
}

type fakeTransport struct {
	script   []srvStep
	recs     []*attemptRec
	inflight int
}

//go:norace
func (t *fakeTransport) track(d int) { t.inflight += d }

//go:norace
func (t *fakeTransport) busy() bool { return t.inflight > 0 }

func (t *fakeTransport) RoundTrip(req *http.Request) (*http.Response, error) {
	vrt.EnterUser()
	defer vrt.ExitUser()
	t.track(1)
	defer t.track(-1)
	rec := &attemptRec{Method: req.Method, URL: req.URL.String(), Header: req.Header.Clone(), At: vrt.Elapsed(), Ctx: req.Context()}
	rec.CallerVal = req.Context().Value(callerKey)
	rec.Deadline, rec.HasDeadline = req.Context().Deadline()
	k := len(t.recs)
	t.recs = append(t.recs, rec)
	step := t.script[min(k, len(t.script)-1)]
	if req.Body != nil && step.Partial > 0 {
		part := make([]byte, step.Partial)
		n, _ := io.ReadFull(req.Body, part)
		rec.Body, rec.PartialRead = part[:n], true
		req.Body.Close()
		rec.Err, rec.Returned = step.Err, vrt.Elapsed()
		return nil, step.Err
	}
	if req.Body != nil {
		// the server reads the first bytes, is slow (other attempts may start meanwhile), then reads the rest
		head := make([]byte, 4)
		n, err := io.ReadFull(req.Body, head)
		rec.Body = append(rec.Body, head[:n]...)
		if err == nil {
			if step.Think > 0 {
				vrt.Sleep(int64(step.Think / 2))
			}
			var rest []byte
			rest, rec.BodyErr = io.ReadAll(req.Body)
			rec.Body = append(rec.Body, rest...)
		} else if err != io.EOF && err != io.ErrUnexpectedEOF {
			rec.BodyErr = err
		}
		req.Body.Close()
	}
	if step.Think > 0 {
		tm := vrt.NewTimer(int64(step.Think), false)
		switch vrt.Select(false, vrt.R(tm.C), vrt.R(req.Context().Done())) {
		case 0:
			<-tm.C
		case 1:
			tm.StopQuiet()
			rec.Err, rec.Returned = req.Context().Err(), vrt.Elapsed()
			return nil, rec.Err
		}
	}
	if err := vrt.CtxErr(req.Context()); err != nil {
		rec.Err, rec.Returned = err, vrt.Elapsed()
		return nil, err
	}
	if step.Err != nil {
		rec.Err, rec.Returned = step.Err, vrt.Elapsed()
		return nil, step.Err
	}
	rec.RespBody = &fakeBody{ctx: req.Context(), data: bytes.NewReader([]byte(step.Body)), readyAt: vrt.Elapsed() + int64(step.Stream)}
	h := http.Header{}
	if step.RetryAfter != "" {
		h.Set("Retry-After", step.RetryAfter)
	}
	rec.Resp = &http.Response{StatusCode: step.Status, Status: fmt.Sprint(step.Status), Header: h, Body: rec.RespBody, Request: req, ProtoMajor: 1, ProtoMinor: 1}
	rec.Returned = vrt.Elapsed()
	return rec.Resp, nil
}

// readSeekCloser is a request body set directly on the request (seekable, not wrapped by net/http).
type readSeekCloser struct {
	*strings.Reader
	closed int
	strict bool
	seeks  int
	failAt int // >0: the failAt-th Seek fails (a body that can be sent once: a pipe, a file removed meanwhile)
}

func (r *readSeekCloser) Close() error { r.closed++; return nil }

// strict, like *os.File: unusable once closed
func (r *readSeekCloser) Read(p []byte) (int, error) {
	if r.strict && r.closed > 0 {
		return 0, errors.New("read: file already closed")
	}
	return r.Reader.Read(p)
}

func (r *readSeekCloser) Seek(off int64, whence int) (int64, error) {
	r.seeks++
	if r.failAt > 0 && r.seeks >= r.failAt {
		return 0, errors.New("seek: illegal seek")
	}
	if r.strict && r.closed > 0 {
		return 0, errors.New("seek: file already closed")
	}
	return r.Reader.Seek(off, whence)
}

type httpCase struct {
	bodyKind string // "nil", "nobody", "buffer", "bytesreader", "stringsreader", "stream", "seeker-direct"
	body     string
	reqCtx   string // "background", "todo", "cancel", "value", "deadline", "value+deadline", "cancelled-later"
	execCtx  string // "none", "background", "cancel", "value"
	stack    string // "none", "retry", "retry-backoff", "timeout", "hedge", "breaker", "fallback", "retry+timeout", "retry+hedge"
	script   []srvStep
	via      string // "roundtripper", "do"
	leakOnly bool   // C19: only the leak / close oracle
}

func (c httpCase) String() string {
	var ss []string
	for _, s := range c.script {
		ss = append(ss, s.String())
	}
	return fmt.Sprintf("%s body=%s(%d) reqctx=%s execctx=%s stack=%s script=%s", c.via, c.bodyKind, len(c.body), c.reqCtx, c.execCtx, c.stack, strings.Join(ss, ","))
}

const httpLimit = 500 * time.Millisecond // timeout limit / hedge delay base, far above think times

func (c httpCase) policies() []failsafe.Policy[*http.Response] {
	rp := func() failsafe.Policy[*http.Response] { return failsafehttp.RetryPolicyBuilder().Build() }
	to := func() failsafe.Policy[*http.Response] { return timeout.With[*http.Response](httpLimit) }
	hp := func() failsafe.Policy[*http.Response] {
		return hedgepolicy.BuilderWithDelay[*http.Response](100 * time.Millisecond).Build()
	}
	switch c.stack {
	case "retry":
		return []failsafe.Policy[*http.Response]{rp()}
	case "retry-backoff": // a backoff whose maxDelay is far below a Retry-After: the header still has to be waited for
		return []failsafe.Policy[*http.Response]{failsafehttp.RetryPolicyBuilder().WithBackoff(10*time.Millisecond, 200*time.Millisecond).Build()}
	case "timeout":
		return []failsafe.Policy[*http.Response]{to()}
	case "hedge":
		return []failsafe.Policy[*http.Response]{hp()}
	case "breaker":
		return []failsafe.Policy[*http.Response]{circuitbreaker.Builder[*http.Response]().WithFailureThreshold(5).Build()}
	case "fallback":
		return []failsafe.Policy[*http.Response]{fallback.BuilderWithError[*http.Response](E3).HandleErrors(E2).Build()}
	case "retry+timeout":
		return []failsafe.Policy[*http.Response]{rp(), to()}
	case "timeout+retry":
		return []failsafe.Policy[*http.Response]{timeout.With[*http.Response](20 * time.Second), rp()}
	case "retry+hedge":
		return []failsafe.Policy[*http.Response]{rp(), hp()}
	}
	return nil
}

func retryableStep(s srvStep) bool {
	if s.Err != nil {
		if strings.Contains(s.Err.Error(), "unsupported protocol scheme") {
			return false
		}
		var ue *url.Error
		if errors.As(s.Err, &ue) && ue == s.Err {
			if strings.Contains(ue.Error(), "certificate is not trusted") || strings.HasSuffix(ue.Error(), "redirects") {
				return false
			}
		}
		return !errors.Is(s.Err, context.Canceled)
	}
	return s.Status == 429 || (s.Status >= 500 && s.Status != 501)
}

func (c httpCase) run() func() {
	return func() {
		ft := &fakeTransport{script: c.script}
		// request
		var rd io.Reader
		var direct *readSeekCloser
		switch c.bodyKind {
		case "nil":
		case "nobody":
			rd = http.NoBody
		case "buffer":
			rd = bytes.NewBufferString(c.body)
		case "bytesreader":
			rd = bytes.NewReader([]byte(c.body))
		case "stringsreader":
			rd = strings.NewReader(c.body)
		case "bigstream": // a plain stream of 70 000 bytes
			rd = io.MultiReader(strings.NewReader(c.body[:len(c.body)/2]), strings.NewReader(c.body[len(c.body)/2:]))
		case "stream":
			rd = io.MultiReader(strings.NewReader(c.body[:len(c.body)/2]), strings.NewReader(c.body[len(c.body)/2:]))
		case "seeker-direct":
			direct = &readSeekCloser{Reader: strings.NewReader(c.body)}
		case "seeker-file":
			direct = &readSeekCloser{Reader: strings.NewReader(c.body), strict: true}
		case "seeker-once": // rewinds for the first attempt only
			direct = &readSeekCloser{Reader: strings.NewReader(c.body), failAt: 2}
		}
		ctx := context.Background()
		var cancelCaller context.CancelFunc
		deadline := time.Unix(0, vrt.Now()).Add(time.Hour)
		switch c.reqCtx {
		case "todo":
			ctx = context.TODO()
		case "cancel", "cancelled-later":
			ctx, cancelCaller = vcontext.WithCancel(ctx)
		case "value":
			ctx = context.WithValue(ctx, callerKey, "v")
		case "deadline":
			ctx, cancelCaller = vcontext.WithDeadline(ctx, deadline)
		case "value+deadline":
			ctx, cancelCaller = vcontext.WithDeadline(context.WithValue(ctx, callerKey, "v"), deadline)
		}
		req, err := http.NewRequestWithContext(ctx, "POST", "http://example.test/path?q=1", rd)
		if err != nil {
			vrt.Fail("NewRequest: " + err.Error())
			return
		}
		if direct != nil {
			req.Body = direct
			req.ContentLength = int64(len(c.body))
		}
		req.Header.Set("X-Test", "1")
		req.Header.Add("X-Multi", "a")
		req.Header.Add("X-Multi", "b")
		origHeader := req.Header.Clone()
		// executor
		ex := failsafe.NewExecutor[*http.Response](c.policies()...)
		var cancelExec context.CancelFunc
		switch c.execCtx {
		case "background":
			ex = ex.WithContext(context.Background())
		case "cancel":
			var ectx context.Context
			ectx, cancelExec = vcontext.WithCancel(context.Background())
			ex = ex.WithContext(ectx)
		case "value":
			ex = ex.WithContext(context.WithValue(context.Background(), execKey, "e"))
		}
		start := vrt.Elapsed()
		var resp *http.Response
		if c.via == "do" {
			resp, err = failsafehttp.NewRequestWithExecutor(req, &http.Client{Transport: ft}, ex).Do()
		} else {
			resp, err = failsafehttp.NewRoundTripperWithExecutor(ft, ex).RoundTrip(req)
		}
		done := vrt.Elapsed()
		// losing hedge attempts may still be talking to the server: let them finish before judging
		for i := 0; ft.busy() && i < 100; i++ {
			vrt.Sleep(int64(50 * time.Millisecond))
		}
		var got []byte
		var readErr error
		if resp != nil && resp.Body != nil {
			got, readErr = io.ReadAll(resp.Body)
			resp.Body.Close()
		}
		_ = start
		vrt.Mark(fmt.Sprintf("attempts=%d err=%s status=%v read=%q readErr=%v t=%d", len(ft.recs), errShort(err), respStatus(resp), got, readErr, done))
		// the caller is done with the call: it releases its own contexts, as callers do
		if c.reqCtx == "cancelled-later" {
			// keeps its context alive (e.g. a long-lived server context): nothing may depend on it ending
		} else if cancelCaller != nil {
			defer cancelCaller()
		}
		if cancelExec != nil && c.execCtx == "cancel" {
			// the executor's context is long-lived too
			_ = cancelExec
		}
		if msg := c.check(ft, origHeader, resp, err, got, readErr, deadline); msg != "" {
			if c.leakOnly {
				vrt.FailLater(msg) // the leak analysis at quiescence comes first
			} else {
				vrt.Fail(msg)
			}
		}
	}
}

// errShort renders an error without pointer values (an ExceededError prints its *http.Response).
func errShort(err error) string {
	if err == nil {
		return "nil"
	}
	var ee retrypolicy.ExceededError
	if errors.As(err, &ee) {
		return fmt.Sprintf("retries exceeded (last status %v, last error %v)", respStatus(asResp(ee.LastResult)), ee.LastError)
	}
	return err.Error()
}

func asResp(x any) *http.Response {
	r, _ := x.(*http.Response)
	return r
}

func respStatus(r *http.Response) any {
	if r == nil {
		return nil
	}
	return r.StatusCode
}

// mergedContext: both the request's and the execution's context are non-background, so the adapter
// runs each attempt under a context it creates, and cancels when the attempt function returns.
func (c httpCase) mergedContext() bool {
	reqNonBg := c.reqCtx != "background"
	execNonBg := c.execCtx == "cancel" || c.execCtx == "value" || strings.Contains(c.stack, "timeout") || strings.Contains(c.stack, "hedge")
	return reqNonBg && execNonBg
}

// netTimeoutError is what net/http reports for its own timeouts (Client.Timeout, ResponseHeaderTimeout).
type netTimeoutError struct{}

func (netTimeoutError) Error() string   { return "net/http: timeout awaiting response headers" }
func (netTimeoutError) Timeout() bool   { return true }
func (netTimeoutError) Temporary() bool { return true }
func (netTimeoutError) Is(t error) bool { return t == context.DeadlineExceeded }

// shortBody renders a request body for a message: whole if short, else length and ends.
func shortBody(b []byte) string {
	if len(b) <= 40 {
		return fmt.Sprintf("%q", b)
	}
	return fmt.Sprintf("%d bytes %q...%q", len(b), b[:12], b[len(b)-12:])
}

func (c httpCase) wantBody() string {
	if c.bodyKind == "nil" || c.bodyKind == "nobody" {
		return ""
	}
	return c.body
}

func (c httpCase) check(ft *fakeTransport, origHeader http.Header, resp *http.Response, err error, got []byte, readErr error, deadline time.Time) string {
	hedged := strings.Contains(c.stack, "hedge")
	retrying := strings.Contains(c.stack, "retry")
	// C19 part: responses obtained but not returned are closed
	if c.leakOnly {
		for i, r := range ft.recs {
			if r.Resp != nil && r.Resp != resp && !r.RespBody.closed {
				return fmt.Sprintf("response of attempt %d (status %d) was not returned to the caller and was never closed", i, r.Resp.StatusCode)
			}
		}
		return ""
	}
	// every attempt saw the original request
	for i, r := range ft.recs {
		if r.Method != "POST" || r.URL != "http://example.test/path?q=1" {
			return fmt.Sprintf("attempt %d saw %s %s", i, r.Method, r.URL)
		}
		for k, v := range origHeader {
			if strings.Join(r.Header[k], ",") != strings.Join(v, ",") {
				return fmt.Sprintf("attempt %d saw header %s=%v, the caller set %v", i, k, r.Header[k], v)
			}
		}
		if r.PartialRead {
			if !strings.HasPrefix(c.wantBody(), string(r.Body)) {
				return fmt.Sprintf("attempt %d received %d bytes that are not the beginning of the original body", i, len(r.Body))
			}
		} else if r.BodyErr != nil || string(r.Body) != c.wantBody() {
			return fmt.Sprintf("attempt %d received body %s (err %v), the original body is %s", i, shortBody(r.Body), r.BodyErr, shortBody([]byte(c.wantBody())))
		}
		// the context each attempt runs under carries the caller's values and deadline
		if strings.Contains(c.reqCtx, "value") && r.CallerVal != "v" {
			return fmt.Sprintf("attempt %d ran under a context without the caller's context value (got %v)", i, r.CallerVal)
		}
		if strings.Contains(c.reqCtx, "deadline") && (!r.HasDeadline || !r.Deadline.Equal(deadline)) {
			return fmt.Sprintf("attempt %d ran under a context without the caller's deadline (has=%v %v)", i, r.HasDeadline, r.Deadline)
		}
	}
	// retried exactly for the documented statuses / errors
	if !hedged {
		want := 1
		if retrying {
			for want < 3 && retryableStep(c.script[min(want-1, len(c.script)-1)]) {
				want++
			}
		}
		if len(ft.recs) != want {
			return fmt.Sprintf("%d attempts reached the server, the documented retry rules give %d", len(ft.recs), want)
		}
		// Retry-After (seconds) is waited for
		for i := 1; i < len(ft.recs); i++ {
			prev := c.script[min(i-1, len(c.script)-1)]
			if prev.RetryAfter != "" && (prev.Status == 429 || prev.Status == 503) && ft.recs[i-1].Resp != nil { // (no response if a time limit ended the attempt first)
				var secs int64
				fmt.Sscan(prev.RetryAfter, &secs)
				if gap := ft.recs[i].At - ft.recs[i-1].Returned; gap < secs*int64(time.Second) {
					return fmt.Sprintf("attempt %d started %v after the previous response, Retry-After was %ds", i, time.Duration(gap), secs)
				}
			}
		}
		// the response finally returned is the last attempt's
		last := ft.recs[len(ft.recs)-1]
		if last.Resp != nil {
			if c.stack == "retry" || c.stack == "retry-backoff" || c.stack == "none" || c.stack == "timeout" || c.stack == "breaker" || c.stack == "retry+timeout" || c.stack == "timeout+retry" {
				if resp != last.Resp && !(retrying && err != nil) {
					return fmt.Sprintf("returned response %v is not the last attempt's (status %d), err=%v", respStatus(resp), last.Resp.StatusCode, err)
				}
			}
		}
	}
	// and its body can be read to the end
	if resp != nil {
		var src *attemptRec
		for _, r := range ft.recs {
			if r.Resp == resp {
				src = r
			}
		}
		if src == nil {
			return "returned response was not produced by any attempt"
		}
		wantBody := c.script[min(indexOf(ft.recs, src), len(c.script)-1)].Body
		if readErr != nil || string(got) != wantBody {
			class := "attempt ran under the caller's or the execution's own context"
			if c.mergedContext() {
				class = "attempt ran under a merged context: non-background request context and non-background execution context"
			}
			return fmt.Sprintf("reading the returned response body gave %s, %v; the server sent %s [%s]", shortBody(got), readErr, shortBody([]byte(wantBody)), class)
		}
	}
	return ""
}

func indexOf(rs []*attemptRec, r *attemptRec) int {
	for i, x := range rs {
		if x == r {
			return i
		}
	}
	return 0
}

// bigBody: 70 000 bytes, no period shorter than the whole (so a truncated or shifted replay is seen)
var bigBody = func() string {
	var sb strings.Builder
	for i := 0; sb.Len() < 70000; i++ {
		fmt.Fprintf(&sb, "%06d|", i)
	}
	return sb.String()[:70000]
}()

func c18Cases(tier string) []httpCase {
	var out []httpCase
	bodies := []struct{ k, b string }{{"nil", ""}, {"nobody", ""}, {"buffer", "hello body"}, {"buffer", ""}, {"bytesreader", "hello body"}, {"stringsreader", "hello body"}, {"stringsreader", ""},
		{"stream", "hello streamed body"}, {"seeker-direct", "hello body"}, {"seeker-direct", ""}, {"seeker-file", "hello body"}, {"bigstream", bigBody}}
	reqCtxs := []string{"background", "todo", "cancel", "value", "deadline", "value+deadline"}
	execCtxs := []string{"none", "background", "cancel", "value"}
	stacks := []string{"none", "retry", "retry-backoff", "timeout", "hedge", "breaker", "fallback", "retry+timeout", "retry+hedge", "timeout+retry"}
	ok := srvStep{Status: 200, Body: "response"}
	scripts := [][]srvStep{
		{ok},
		{{Status: 404, Body: "nf"}},
		{{Status: 500, Body: "e"}, ok},
		{{Status: 429, RetryAfter: "1", Body: "slow down"}, ok},
		{{Status: 503, RetryAfter: "2"}, {Status: 503, RetryAfter: "1"}, ok},
		// the connection is reset while the request body is still being uploaded; the retry sends it whole
		{{Err: errors.New("connection reset during upload"), Partial: 6}, ok},
		{{Err: errors.New("connection reset during upload"), Partial: 66000}, {Status: 503, Body: "x"}, ok},
		// the response that carries Retry-After is itself slow in coming
		{{Status: 429, RetryAfter: "1", Body: "slow down", Think: 600 * time.Millisecond}, ok},
		{{Status: 503, RetryAfter: "1", Think: 1500 * time.Millisecond}, {Status: 429, RetryAfter: "2", Think: 300 * time.Millisecond, Body: "x", Stream: 5 * time.Millisecond}, ok},
		{{Status: 501, Body: "ni"}},
		{{Status: 500}, {Status: 502}, {Status: 504, Body: "last"}},
		// error responses with bodies of several KiB, the last of which is what the caller finally gets
		{{Status: 503, Body: bigBody[:5000]}, {Status: 500, Body: bigBody[:9000]}, {Status: 429, Body: bigBody[:6000]}},
		// 5xx statuses without a name in net/http are 5xx statuses
		{{Status: 509, Body: "bw"}, {Status: 599, Body: "x"}, ok},
		{{Status: 520}, {Status: 529, Body: "overloaded"}, {Status: 598, Body: "last"}},
		// a transport-level timeout (net/http's own: it matches context.DeadlineExceeded) is an error like any other: retried
		{{Err: netTimeoutError{}}, ok},
		{{Err: errors.New("connection reset")}, ok},
		{{Err: &url.Error{Op: "Post", URL: "u", Err: errors.New("x509: certificate is not trusted")}}},
		{{Err: errors.New("unsupported protocol scheme \"foo\"")}},
		{{Status: 200, Body: "streamed response", Stream: 10 * time.Millisecond}},
		{{Status: 500, Body: "e", Think: 5 * time.Millisecond}, {Status: 200, Body: "after think", Think: 5 * time.Millisecond, Stream: 5 * time.Millisecond}},
		// a server slower than the hedge delay: attempts overlap while the first is still sending its body
		{{Status: 200, Body: "slow", Think: 300 * time.Millisecond}, {Status: 200, Body: "fast", Think: time.Millisecond}},
	}
	if tier != "thorough" {
		// quick: all pairs rather than the full product: every body x context kind on a retrying
		// script, every stack x context kind, every script x stack
		for _, b := range bodies {
			for _, rc := range reqCtxs {
				out = append(out, httpCase{bodyKind: b.k, body: b.b, reqCtx: rc, execCtx: "none", stack: "retry", script: scripts[2], via: "roundtripper"})
			}
			out = append(out, httpCase{bodyKind: b.k, body: b.b, reqCtx: "background", execCtx: "cancel", stack: "retry+timeout", script: scripts[3], via: "do"})
		}
		for _, st := range stacks {
			for _, rc := range reqCtxs {
				for _, ec := range execCtxs {
					out = append(out, httpCase{bodyKind: "buffer", body: "hello body", reqCtx: rc, execCtx: ec, stack: st, script: scripts[2], via: "roundtripper"})
				}
			}
			for _, sc := range scripts {
				out = append(out, httpCase{bodyKind: "stream", body: "hello streamed body", reqCtx: "background", execCtx: "none", stack: st, script: sc, via: "roundtripper"})
				out = append(out, httpCase{bodyKind: "stringsreader", body: "hello body", reqCtx: "value", execCtx: "none", stack: st, script: sc, via: "do"})
			}
			// every body kind against a connection reset in the middle of the upload
			if st == "retry" || st == "retry-backoff" || st == "retry+timeout" || st == "retry+hedge" {
				for _, b := range bodies {
					for _, sc := range scripts[5:7] {
						out = append(out, httpCase{bodyKind: b.k, body: b.b, reqCtx: "background", execCtx: "none", stack: st, script: sc, via: "roundtripper"})
					}
				}
			}
			// seekable bodies set directly on the request, under every stack, with a server slow enough for hedge attempts to overlap
			for _, bk := range []string{"seeker-direct", "seeker-file"} {
				out = append(out, httpCase{bodyKind: bk, body: "hello body", reqCtx: "background", execCtx: "none", stack: st, script: scripts[len(scripts)-1], via: "roundtripper"})
			}
		}
		return out
	}
	for _, b := range bodies {
		for _, rc := range reqCtxs {
			for _, ec := range execCtxs {
				for _, st := range stacks {
					for si, sc := range scripts {
						via := "roundtripper"
						if (si+len(st))%2 == 1 {
							via = "do"
						}
						out = append(out, httpCase{bodyKind: b.k, body: b.b, reqCtx: rc, execCtx: ec, stack: st, script: sc, via: via})
					}
				}
			}
		}
	}
	return out
}

func c18Scenarios(tier string) []*Scenario {
	var out []*Scenario
	for _, c := range c18Cases(tier) {
		c := c
		bound := 0
		if strings.Contains(c.stack, "hedge") || strings.Contains(c.stack, "timeout") {
			bound = 1
		}
		out = append(out, &Scenario{Name: "C18/http " + c.String(), Bound: bound, Reduce: true, Body: c.run()})
	}
	return append(out, c18GrpcScenarios(tier)...)
}

func mergeStats(tot, st *Stats) {
	tot.Executions += st.Executions
	tot.Points += st.Points
	tot.Steps += st.Steps
	tot.Outcomes += st.Outcomes
	tot.Nontrivial += st.Nontrivial
	tot.Pruned += st.Pruned
	tot.HorizonHits += st.HorizonHits
	tot.MaxThreads = max(tot.MaxThreads, st.MaxThreads)
	tot.BoundCompleted = min(tot.BoundCompleted, st.BoundCompleted)
	tot.BoundAsked = max(tot.BoundAsked, st.BoundAsked)
	tot.Capped = tot.Capped || st.Capped
	tot.Violations = append(tot.Violations, st.Violations...)
	if tot.Sample == nil {
		tot.Sample, tot.SampleSchedule = st.Sample, st.SampleSchedule
	}
}

// chunkUnits groups scenarios into units of n so that worker hand-out overhead stays small.
func chunkUnits(prefix string, scs []*Scenario, n int) []Unit {
	var us []Unit
	for i := 0; i < len(scs); i += n {
		part := scs[i:min(i+n, len(scs))]
		us = append(us, Unit{Name: fmt.Sprintf("%s[%d..%d] e.g. %s", prefix, i, i+len(part)-1, part[0].Name), Run: func(dl time.Time) *Stats {
			tot := &Stats{BoundCompleted: 1 << 30, outcomes: map[string]int{}}
			for _, sc := range part {
				st := Explore(sc, dl, false)
				if os.Getenv("VERIF_DEBUG_HEAVY") != "" && st.Executions+st.Pruned > 1500 {
					fmt.Fprintf(os.Stderr, "HEAVY %d+%d bound=%d %s\n", st.Executions, st.Pruned, sc.Bound, sc.Name)
				}
				mergeStats(tot, st)
			}
			return tot
		}})
	}
	return us
}

func init() {
	scenarioSets["C18"] = c18Scenarios
	register(&CheckDef{
		Property:  "C18",
		Technique: "exhaustive enumeration of request/context/policy/server-script programs, each executed on the real adapters under the virtual runtime (all schedules within the deviation bound) against fake transports",
		Rule: "a program = request body kind and size x request context kind x executor context kind x policy stack x server script (statuses, Retry-After, errors, think time, streamed bodies) x entry point (RoundTripper / Request.Do), " +
			"plus gRPC client/server interceptor programs over status codes and contexts; the fake transport records what every attempt saw; distinct = distinct observation logs",
		Assume: []string{"the inner transport is a fake http.RoundTripper whose response bodies, like net/http's, fail reads once the request context is done",
			"net/http, grpc metadata/status helpers are trusted", "quick tier: pairwise rather than full product of the alphabets"},
		Units: func(tier string) []Unit {
			return chunkUnits("C18", c18Scenarios(tier), 40)
		},
		// the fake transport's modelling assumption and a sample of cases (incl. the recorded finding)
		// are replayed on the uninstrumented library over a real net/http transport and loopback server
		Post: func() (map[string]any, string) {
			bin := os.Getenv("VERIF_CROSSCHECK")
			if bin == "" {
				return nil, ""
			}
			out, err := exec.Command(bin).Output()
			var res struct {
				Cases         int      `json:"cases"`
				Agreements    int      `json:"agreements"`
				Disagreements []string `json:"disagreements"`
				Violations    []string `json:"violations"`
				Notes         []string `json:"notes"`
			}
			if jerr := json.Unmarshal(out, &res); jerr != nil {
				return nil, fmt.Sprintf("crosscheck failed: %v %s", err, out)
			}
			if len(res.Disagreements) > 0 {
				return nil, fmt.Sprintf("the fake transport and the real net/http stack disagree: %v", res.Disagreements)
			}
			extra := map[string]any{"crosscheck_real_transport_cases": res.Cases, "crosscheck_agreements": res.Agreements, "crosscheck_notes": res.Notes}
			if len(res.Violations) > 0 {
				extra["violations"] = res.Violations
			}
			return extra, ""
		},
	})
}
