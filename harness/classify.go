package main

// Reference for the documented handle / abort / cancel condition rules (C12). The matchers are
// the standard library's, not re-implementations of the library's helpers.

import (
	"errors"
	"reflect"
)

func condMatches(c Cond, v int, err error) bool {
	switch c.K {
	case "errs":
		for _, e := range append([]error{c.E}, c.Es...) {
			if errors.Is(err, e) {
				return true
			}
		}
		return false
	case "types":
		for _, t := range append([]any{c.T}, c.Ts...) {
			if errTypeMatches(err, t) {
				return true
			}
		}
		return false
	case "errs0":
		return false
	case "result":
		// HandleResult applies to outcomes without an error (documented on the builders)
		return err == nil && reflect.DeepEqual(v, c.V)
	}
	return c.F(v, err)
}

// errTypeMatches: errors.As into a reflect-made target of the registered type (the value type, or
// the pointer type when only the pointer implements error).
func errTypeMatches(err error, target any) bool {
	if err == nil {
		return false
	}
	errorType := reflect.TypeOf((*error)(nil)).Elem()
	t := reflect.TypeOf(target)
	if t.Kind() == reflect.Ptr {
		t = t.Elem() // ValErr{} and &ValErr{} both name the type ValErr
	}
	if t.Kind() != reflect.Interface && !t.Implements(errorType) {
		t = reflect.PointerTo(t) // implemented with pointer receivers
	}
	return errors.As(err, reflect.New(t).Interface())
}

// isFailure is the documented classification of an outcome by handle conditions.
func isFailure(handle []Cond, v int, err error) bool {
	if len(handle) == 1 && handle[0].K == "errs0" {
		handle = nil // HandleErrors() with an empty list configures nothing (only used on its own)
	}
	if len(handle) == 0 {
		return err != nil
	}
	errorsChecked := false
	for _, c := range handle {
		if condMatches(c, v, err) {
			return true
		}
		if c.K != "result" {
			errorsChecked = true
		}
	}
	return err != nil && !errorsChecked
}
