package main

import (
	"context"
	"fmt"
	"strings"
	"time"

	"github.com/failsafe-go/failsafe-go"
	"github.com/failsafe-go/failsafe-go/verifrt/vcontext"
	"github.com/failsafe-go/failsafe-go/verifrt/vrt"
)

type RunOpts struct {
	Grace  time.Duration
	Probes bool
	Reduce bool
	Check  func(env *Env) string
	// CtxDeadline: the execution runs under a caller context with this deadline (0 = none)
	CtxDeadline time.Duration
}

// eventSummary is a compact rendering of the event log (used to tell outcomes apart).
func (env *Env) eventSummary() string {
	var sb strings.Builder
	for i, e := range env.Events {
		if i > 0 {
			sb.WriteByte(' ')
		}
		sb.WriteString(e.String())
		sb.WriteByte('@')
		sb.WriteString(fmt.Sprint(e.At))
	}
	return sb.String()
}

// runSync runs one synchronous execution of the scripted function through the stack.
func (env *Env) runSync(probes bool) {
	pol := env.Policies
	if probes {
		pol = env.WithProbes()
	}
	ex := failsafe.NewExecutor[int](pol...).OnDone(env.doneEv(-1, "done")).OnSuccess(env.doneEv(-1, "success")).OnFailure(env.doneEv(-1, "failure"))
	if env.Ctx != nil {
		ex = ex.WithContext(env.Ctx)
	}
	v, err := ex.GetWithExecution(env.Fn)
	env.Completed, env.ResV, env.ResE, env.DoneAt = true, v, err, vrt.Elapsed()
}

func stackBody(stack []Spec, script []Out, o RunOpts) func() {
	return func() {
		env := NewEnv(stack)
		env.Script = script
		env.Reduce = o.Reduce
		if o.CtxDeadline != 0 {
			ctx, cancel := vcontext.WithDeadline(context.Background(), time.Unix(0, vrt.Now()).Add(o.CtxDeadline))
			defer cancel()
			env.Ctx, env.ExternalCancel = ctx, true
		}
		env.runSync(o.Probes)
		if o.Grace > 0 {
			vrt.Sleep(int64(o.Grace))
		}
		vrt.Mark(fmt.Sprintf("result=(%d,%s) t=%d invs=%d events=[%s]", env.ResV, errStr(env.ResE), env.DoneAt, len(env.Invs), env.eventSummary()))
		if msg := env.checkTop(); msg != "" {
			vrt.Fail(msg)
			return
		}
		if o.Check != nil {
			if msg := o.Check(env); msg != "" {
				vrt.Fail(msg)
			}
		}
	}
}

// checkTop: what the caller got is what the outermost layer returned, and the executor's
// completion listeners tell the same story (C01 / C16 basics, evaluated in every scenario).
func (env *Env) checkTop() string {
	nDone, nSucc, nFail := 0, 0, 0
	for _, e := range env.Events {
		if e.Policy != -1 {
			continue
		}
		switch e.Name {
		case "done":
			nDone++
		case "success":
			nSucc++
		case "failure":
			nFail++
		}
		if e.V != env.ResV || e.E != env.ResE {
			return fmt.Sprintf("executor %s listener saw (%d,%s) but the caller got (%d,%s)", e.Name, e.V, errStr(e.E), env.ResV, errStr(env.ResE))
		}
	}
	if !env.Completed {
		return ""
	}
	if nDone != 1 || nSucc+nFail != 1 {
		return fmt.Sprintf("executor listeners: done=%d success=%d failure=%d", nDone, nSucc, nFail)
	}
	if env.Recs != nil {
		roots, _ := env.Apps()
		if len(roots) != 1 || roots[0].Out == nil {
			return fmt.Sprintf("outermost layer applied %d times", len(roots))
		}
		r := roots[0].Out.Res
		if r.Result != env.ResV || r.Error != env.ResE {
			return fmt.Sprintf("caller got (%d,%s) but the outermost policy returned %s", env.ResV, errStr(env.ResE), resStr(r))
		}
		if r.SuccessAll != (nSucc == 1) {
			return fmt.Sprintf("outermost verdict SuccessAll=%v but success listener calls=%d", r.SuccessAll, nSucc)
		}
	}
	return ""
}

func vrtSleep(d time.Duration) { vrt.Sleep(int64(d)) }
func fail(msg string)          { vrt.Fail(msg) }
func markResult(env *Env) {
	vrt.Mark(fmt.Sprintf("result=(%d,%s) t=%d invs=%d events=[%s]", env.ResV, errStr(env.ResE), env.DoneAt, len(env.Invs), env.eventSummary()))
}
