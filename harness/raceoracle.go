package main

// Race oracle (DESIGN.md §3.5): in the race build the detector's reports are written to the file
// named by GORACE=log_path=...; an execution during which that file grows contained a data race.

import (
	"fmt"
	"os"
	"strings"

	"github.com/failsafe-go/failsafe-go/verifrt/vrt"
)

var raceLogPath string
var raceLogOff int64

func initRaceOracle() {
	if !vrt.RaceBuild {
		return
	}
	for _, kv := range strings.Fields(os.Getenv("GORACE")) {
		if strings.HasPrefix(kv, "log_path=") {
			raceLogPath = fmt.Sprintf("%s.%d", strings.TrimPrefix(kv, "log_path="), os.Getpid())
		}
	}
	if raceLogPath == "" {
		fmt.Fprintln(os.Stderr, "race build needs GORACE=\"log_path=<file> halt_on_error=0\"")
		os.Exit(2)
	}
}

// newRaceReports returns the detector output produced since the last call.
func newRaceReports() string {
	if raceLogPath == "" {
		return ""
	}
	f, err := os.Open(raceLogPath)
	if err != nil {
		return ""
	}
	defer f.Close()
	st, _ := f.Stat()
	if st.Size() <= raceLogOff {
		return ""
	}
	buf := make([]byte, st.Size()-raceLogOff)
	f.ReadAt(buf, raceLogOff)
	raceLogOff = st.Size()
	return string(buf)
}

// raceSummary extracts the two access sites of the first report: "func1 <-> func2".
func raceSummary(rep string) string {
	var sites []string
	lines := strings.Split(rep, "\n")
	for i, l := range lines {
		l = strings.TrimSpace(l)
		if (strings.HasPrefix(l, "Read at") || strings.HasPrefix(l, "Write at") || strings.HasPrefix(l, "Previous read at") || strings.HasPrefix(l, "Previous write at") ||
			strings.HasPrefix(l, "Atomic") || strings.HasPrefix(l, "Previous atomic")) && i+2 < len(lines) {
			// skip frames inside the virtual runtime shims
			for j := i + 1; j+1 < len(lines); j += 2 {
				fn := strings.TrimSpace(lines[j])
				if fn == "" {
					break
				}
				if strings.Contains(fn, "/verifrt/") || strings.HasPrefix(fn, "sync/atomic") || strings.HasPrefix(fn, "sync.") {
					continue
				}
				loc := strings.TrimSpace(lines[j+1])
				if k := strings.Index(loc, " +0x"); k >= 0 {
					loc = loc[:k]
				}
				if k := strings.Index(fn, "("); k >= 0 && !strings.Contains(fn, "[") {
					fn = fn[:k]
				}
				sites = append(sites, strings.TrimSuffix(fn, "()")+" "+loc)
				break
			}
		}
		if len(sites) == 2 {
			break
		}
	}
	if len(sites) == 2 && sites[0] > sites[1] {
		sites[0], sites[1] = sites[1], sites[0]
	}
	return strings.Join(sites, " <-> ")
}
