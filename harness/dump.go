package main

// Exact canonical dump of a live object (all fields, including unexported ones), used by BX to
// de-duplicate states: two histories are merged only if the objects they reach are field-by-field
// identical. Functions, channels and mutexes are skipped; pointer cycles are cut by numbering.

import (
	"fmt"
	"reflect"
	"sort"
	"strings"
)

func dumpState(x any) string {
	var sb strings.Builder
	seen := map[uintptr]int{}
	dumpValue(&sb, reflect.ValueOf(x), seen, 0)
	return sb.String()
}

func dumpValue(sb *strings.Builder, v reflect.Value, seen map[uintptr]int, depth int) {
	if depth > 40 {
		sb.WriteString("<deep>")
		return
	}
	if !v.IsValid() {
		sb.WriteString("nil")
		return
	}
	t := v.Type()
	if strings.HasSuffix(t.String(), "sync.Mutex") || strings.HasSuffix(t.String(), "sync.RWMutex") {
		return
	}
	switch v.Kind() {
	case reflect.Bool:
		fmt.Fprintf(sb, "%v", v.Bool())
	case reflect.Int, reflect.Int8, reflect.Int16, reflect.Int32, reflect.Int64:
		fmt.Fprintf(sb, "%d", v.Int())
	case reflect.Uint, reflect.Uint8, reflect.Uint16, reflect.Uint32, reflect.Uint64, reflect.Uintptr:
		fmt.Fprintf(sb, "%d", v.Uint())
	case reflect.Float32, reflect.Float64:
		fmt.Fprintf(sb, "%g", v.Float())
	case reflect.String:
		fmt.Fprintf(sb, "%q", v.String())
	case reflect.Func, reflect.Chan, reflect.UnsafePointer:
		// configuration or plumbing, not state
	case reflect.Ptr:
		if v.IsNil() {
			sb.WriteString("nil")
			return
		}
		p := v.Pointer()
		if n, ok := seen[p]; ok {
			fmt.Fprintf(sb, "&#%d", n)
			return
		}
		seen[p] = len(seen)
		sb.WriteString("&")
		dumpValue(sb, v.Elem(), seen, depth+1)
	case reflect.Interface:
		if v.IsNil() {
			sb.WriteString("nil")
			return
		}
		fmt.Fprintf(sb, "(%s)", v.Elem().Type().String())
		dumpValue(sb, v.Elem(), seen, depth+1)
	case reflect.Struct:
		sb.WriteString("{")
		for i := 0; i < v.NumField(); i++ {
			f := t.Field(i)
			if f.Type.Kind() == reflect.Func {
				continue
			}
			sb.WriteString(f.Name)
			sb.WriteString(":")
			dumpValue(sb, v.Field(i), seen, depth+1)
			sb.WriteString(" ")
		}
		sb.WriteString("}")
	case reflect.Slice, reflect.Array:
		if v.Kind() == reflect.Slice && v.IsNil() {
			sb.WriteString("nil")
			return
		}
		sb.WriteString("[")
		for i := 0; i < v.Len(); i++ {
			dumpValue(sb, v.Index(i), seen, depth+1)
			sb.WriteString(" ")
		}
		sb.WriteString("]")
	case reflect.Map:
		keys := v.MapKeys()
		strs := make([]string, len(keys))
		for i, k := range keys {
			var kb, vb strings.Builder
			dumpValue(&kb, k, seen, depth+1)
			dumpValue(&vb, v.MapIndex(k), seen, depth+1)
			strs[i] = kb.String() + "=" + vb.String()
		}
		sort.Strings(strs)
		sb.WriteString("map[" + strings.Join(strs, " ") + "]")
	default:
		fmt.Fprintf(sb, "<%s>", v.Kind())
	}
}
