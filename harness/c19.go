package main

// C19 — Finished executions leave no goroutines or connections behind.
// The leak oracle of the virtual runtime (threads started by the library still parked, library
// timers still pending once every piece of user code has returned) is evaluated at the end of
// every execution of every scenario below.

import (
	"fmt"
	"time"
)

func c19Scenarios(tier string) []*Scenario {
	bound := 1
	if tier == "thorough" {
		bound = 3
	}
	var out []*Scenario
	add := func(name string, stack []Spec, exes []ExeSpec) {
		out = append(out, &Scenario{
			Name:  fmt.Sprintf("C19/%s [%s] %s", name, stackStr(stack), exesStr(exes)),
			Bound: bound, Reduce: true, Leak: true,
			Body: multiBody(stack, exes, MultiOpts{Reduce: true, Final: func(env *Env) string {
				for _, x := range env.Exes {
					if !x.Completed {
						return fmt.Sprintf("execution %d did not complete", x.ID)
					}
				}
				return ""
			}}),
		})
	}
	one := func(script []Out) []ExeSpec { return []ExeSpec{{Script: script}} }
	ok := []Out{{V: 1, Dur: 10}}
	failing := []Out{{Err: E1, Dur: 10}}
	failThenOk := []Out{{Err: E1, Dur: 10}, {V: 1, Dur: 10}}
	block := []Out{{Err: E1, Block: true}}
	retry := Spec{Kind: KRetry, MaxRetries: 2, Delay: 20}
	T := func(l time.Duration) Spec { return Spec{Kind: KTimeout, Limit: l} }
	hedge := func(n int, c []Cond) Spec { return Spec{Kind: KHedge, MaxHedges: n, HDelay: 20, Cancel: c} }
	// every policy x {success, failure, rejection, timeout, cancellation}
	add("retry/success", []Spec{retry}, one(ok))
	add("retry/failure-then-success", []Spec{retry}, one(failThenOk))
	add("retry/exceeded", []Spec{retry}, one(failing))
	add("retry/abort", []Spec{{Kind: KRetry, MaxRetries: 2, Delay: 20, Abort: []Cond{{K: "errs", E: E1}}}}, one(failing))
	for _, src := range []string{"cancel", "deadline"} {
		add("retry/cancelled-in-delay", []Spec{retry}, []ExeSpec{{Script: failing, Ctx: src, CancelAt: 25}})
		add("retry/cancelled-in-attempt", []Spec{retry}, []ExeSpec{{Script: block, Ctx: src, CancelAt: 5}})
		add("retry/cancelled-at-delay-end", []Spec{retry}, []ExeSpec{{Script: failing, Ctx: src, CancelAt: 30}})
	}
	add("retry/async-cancel-in-delay", []Spec{retry}, []ExeSpec{{Script: failing, Async: true, CancelAsync: true, CancelAt: 25}})
	add("retry/async", []Spec{retry}, []ExeSpec{{Script: failThenOk, Async: true}})
	add("breaker/ok", []Spec{{Kind: KBreaker, FT: 1, FC: 1, BDelay: 100}}, one(ok))
	add("breaker/opens", []Spec{{Kind: KBreaker, FT: 1, FC: 1, BDelay: 100}}, one(failing))
	add("breaker/refuses", []Spec{{Kind: KBreaker, FT: 1, FC: 1, BDelay: 100, Pre: "open"}}, one(ok))
	add("limiter/ok", []Spec{{Kind: KLimiter, Smooth: true, Interval: 100}}, one(ok))
	add("limiter/refuses", []Spec{{Kind: KLimiter, Smooth: true, Interval: 100, Used: 1}}, one(ok))
	add("limiter/waits", []Spec{{Kind: KLimiter, Smooth: true, Interval: 100, Used: 1, LWait: 200}}, one(ok))
	add("limiter/cancelled-while-waiting", []Spec{{Kind: KLimiter, Smooth: true, Interval: 100, Used: 1, LWait: 200}}, []ExeSpec{{Script: ok, Ctx: "cancel", CancelAt: 50}})
	add("limiter/cancelled-at-wait-end", []Spec{{Kind: KLimiter, Smooth: true, Interval: 100, Used: 1, LWait: 200}}, []ExeSpec{{Script: ok, Ctx: "cancel", CancelAt: 100}})
	add("bulkhead/ok", []Spec{{Kind: KBulkhead, Conc: 1}}, one(ok))
	add("bulkhead/full", []Spec{{Kind: KBulkhead, Conc: 1, Held: 1}}, one(ok))
	add("bulkhead/wait-times-out", []Spec{{Kind: KBulkhead, Conc: 1, Held: 1, BWait: 50}}, one(ok))
	add("bulkhead/cancelled-while-waiting", []Spec{{Kind: KBulkhead, Conc: 1, Held: 1, BWait: 50}}, []ExeSpec{{Script: ok, Ctx: "cancel", CancelAt: 20}})
	add("bulkhead/cancelled-at-wait-end", []Spec{{Kind: KBulkhead, Conc: 1, Held: 1, BWait: 50}}, []ExeSpec{{Script: ok, Ctx: "cancel", CancelAt: 50}})
	add("bulkhead/permit-arrives", []Spec{{Kind: KBulkhead, Conc: 1, BWait: 50}}, []ExeSpec{{Script: []Out{{V: 1, Dur: 30}}}, {Script: ok, StartAt: 1}})
	add("timeout/under", []Spec{T(50)}, one(ok))
	add("timeout/over-cooperative", []Spec{T(50)}, one([]Out{{V: 1, Block: true}}))
	add("timeout/over-late-return", []Spec{T(50)}, one([]Out{{V: 1, Dur: 120}}))
	add("timeout/tie", []Spec{T(50)}, one([]Out{{V: 1, Dur: 50}}))
	add("timeout/cancelled", []Spec{T(50)}, []ExeSpec{{Script: []Out{{V: 1, Block: true}}, Ctx: "cancel", CancelAt: 20}})
	add("hedge/first-wins-before-delay", []Spec{hedge(1, nil)}, one(ok))
	add("hedge/hedge-wins-loser-cooperative", []Spec{hedge(1, nil)}, one([]Out{{V: 1, Dur: 100, Coop: true}, {V: 2, Dur: 5}}))
	add("hedge/hedge-wins-loser-late", []Spec{hedge(1, nil)}, one([]Out{{V: 1, Dur: 100}, {V: 2, Dur: 5}}))
	add("hedge/tie-at-delay", []Spec{hedge(1, nil)}, one([]Out{{V: 1, Dur: 20}, {V: 2, Dur: 0}}))
	add("hedge/none-matches", []Spec{hedge(2, []Cond{{K: "result", V: 77}})}, one([]Out{{V: 1, Dur: 30}, {V: 2, Dur: 30}, {V: 3, Dur: 5}}))
	add("hedge/two-hedges-first-matches-late", []Spec{hedge(2, []Cond{{K: "result", V: 1}})}, one([]Out{{V: 1, Dur: 45}, {V: 2, Dur: 100}, {V: 3, Dur: 100, Coop: true}}))
	for _, at := range []time.Duration{10, 20, 30} {
		add("hedge/parent-cancelled", []Spec{hedge(2, []Cond{{K: "result", V: 1}})}, []ExeSpec{{Script: []Out{{Err: E1, Dur: 100, Coop: true}}, Ctx: "cancel", CancelAt: at}})
		add("hedge/parent-cancelled-late-returns", []Spec{hedge(1, nil)}, []ExeSpec{{Script: []Out{{Err: E1, Block: true, Dur: 15}}, Ctx: "cancel", CancelAt: at}})
	}
	// ExecutionResult.Cancel while the function runs under a Timeout, well before the limit: the timer goes with the execution
	add("timeout/async-cancel", []Spec{T(50)}, []ExeSpec{{Script: []Out{{V: 1, Block: true}}, Async: true, CancelAsync: true, CancelAt: 20}})
	add("timeout/async-cancel-late-return", []Spec{T(50)}, []ExeSpec{{Script: []Out{{V: 1, Block: true, Dur: 10}}, Async: true, CancelAsync: true, CancelAt: 20}})
	add("retry(timeout)/async-cancel", []Spec{retry, T(50)}, []ExeSpec{{Script: []Out{{Err: E1, Block: true}}, Async: true, CancelAsync: true, CancelAt: 20}})
	add("timeout(retry)/async-cancel", []Spec{T(100), retry}, []ExeSpec{{Script: failing, Async: true, CancelAsync: true, CancelAt: 15}})
	add("hedge/async-cancel-in-delay", []Spec{hedge(1, []Cond{{K: "result", V: 1}})}, []ExeSpec{{Script: []Out{{Err: E1, Dur: 2}}, Async: true, CancelAsync: true, CancelAt: 10}})
	add("hedge/async-cancel", []Spec{hedge(1, nil)}, []ExeSpec{{Script: []Out{{Err: E1, Block: true, Dur: 15}}, Async: true, CancelAsync: true, CancelAt: 10}})
	add("fallback/applied", []Spec{{Kind: KFallback, FbV: 9}}, one(failing))
	add("cache/miss", []Spec{{Kind: KCache, Key: "a"}}, one(ok))
	// compositions
	add("retry(timeout)", []Spec{retry, T(15)}, one([]Out{{V: 1, Block: true}, {V: 1, Dur: 5}}))
	add("retry(timeout)-tie", []Spec{retry, T(10)}, one([]Out{{Err: E1, Dur: 10}, {V: 1, Dur: 5}}))
	add("timeout(retry)-fires-in-delay", []Spec{T(25), retry}, one(failing))
	add("timeout(retry)-fires-at-delay-end", []Spec{T(30), retry}, one(failing))
	add("fallback(timeout)", []Spec{{Kind: KFallback, FbV: 9}, T(20)}, one([]Out{{V: 1, Dur: 60}}))
	add("hedge(timeout)", []Spec{hedge(1, nil), T(30)}, one([]Out{{V: 1, Block: true}, {V: 2, Dur: 5}}))
	add("timeout(hedge)", []Spec{T(30), hedge(1, []Cond{{K: "result", V: 1}})}, one([]Out{{Err: E1, Dur: 100, Coop: true}}))
	add("retry(hedge)", []Spec{{Kind: KRetry, MaxRetries: 1}, hedge(1, []Cond{{K: "result", V: 1}})}, one([]Out{{Err: E1, Dur: 30}, {Err: E1, Dur: 5}, {V: 1, Dur: 5}}))
	// a hedge started at the very instant another attempt's result is accepted: whatever it then waits
	// in (a retry delay, a limiter or bulkhead wait) ends with the execution
	longRetry := Spec{Kind: KRetry, MaxRetries: 1, Delay: 1000}
	add("hedge(retry)-late-hedge-in-retry-delay", []Spec{hedge(1, nil), longRetry}, one([]Out{{V: 1, Dur: 20}, {Err: E1}, {V: 2, Dur: 5}}))
	add("hedge(retry)-late-hedge-in-retry-delay-2", []Spec{hedge(2, nil), longRetry}, one([]Out{{Err: E1, Dur: 100, Coop: true}, {V: 1, Dur: 20}, {Err: E1}, {V: 2, Dur: 5}}))
	add("hedge(limiter-wait)-late-hedge", []Spec{hedge(1, nil), {Kind: KLimiter, Smooth: true, Interval: 500, LWait: 2000}}, one([]Out{{V: 1, Dur: 20}, {V: 2, Dur: 5}}))
	add("hedge(bulkhead-wait)-late-hedge", []Spec{hedge(1, nil), {Kind: KBulkhead, Conc: 1, BWait: 1000}}, one([]Out{{V: 1, Dur: 20, Coop: true}, {V: 2, Dur: 5}}))
	// the first attempt is timed out (the Timeout records its result) while the hedge attempt still waits for a permit: the waiter is cancelled too
	add("hedge(limiter-wait(timeout))-first-times-out", []Spec{hedge(1, nil), {Kind: KLimiter, Smooth: true, Interval: 500, LWait: 2000}, T(30)}, one([]Out{{V: 1, Block: true}, {V: 2, Dur: 5}}))
	add("hedge(bulkhead-wait(timeout))-first-times-out", []Spec{hedge(1, nil), {Kind: KBulkhead, Conc: 1, BWait: 1000}, T(30)}, one([]Out{{V: 1, Block: true, Dur: 100}, {V: 2, Dur: 5}}))
	add("timeout(bulkhead-wait)", []Spec{T(30), {Kind: KBulkhead, Conc: 1, Held: 1, BWait: 50}}, one(ok))
	add("timeout(limiter-wait)", []Spec{T(30), {Kind: KLimiter, Smooth: true, Interval: 100, Used: 1, LWait: 200}}, one(ok))
	// the same execution three times on the same instances: the live set does not grow
	rep := []ExeSpec{{Script: failThenOk}, {Script: failThenOk, StartAt: 200}, {Script: failThenOk, StartAt: 400}}
	add("repeat/retry(timeout)", []Spec{retry, T(50)}, rep)
	add("repeat/hedge", []Spec{hedge(1, nil)}, []ExeSpec{{Script: []Out{{V: 1, Dur: 50}, {V: 2, Dur: 5}}}, {Script: []Out{{V: 1, Dur: 50}, {V: 2, Dur: 5}}, StartAt: 200}, {Script: []Out{{V: 1, Dur: 50}, {V: 2, Dur: 5}}, StartAt: 400}})
	return out
}

func init() {
	scenarioSets["C19"] = func(tier string) []*Scenario { return append(c19Scenarios(tier), c19HTTPScenarios(tier)...) }
	register(&CheckDef{
		Property:  "C19",
		Technique: "stateless schedule exploration of the instrumented library with a leak oracle at quiescence (every live goroutine and pending timer is known to the controlled scheduler)",
		Rule: "one execution = one complete schedule; once the caller has its result and every invocation of user code has returned, virtual time is frozen and the remaining threads run to quiescence: a thread started by the library that is still parked, " +
			"or a library timer still pending with a deadline in the future, is a leak; for the HTTP adapter every response not returned to the caller must have been closed; distinct = distinct observation logs",
		Assume: []string{"sequentially consistent interleavings at synchronisation granularity", "HTTP/gRPC transports are fakes that record contexts, bodies and Close calls (no sockets)",
			"'finishes shortly after' = finishes without virtual time advancing"},
		Units: func(tier string) []Unit {
			var us []Unit
			for _, sc := range scenariosOf("C19", tier) {
				us = append(us, scenarioUnit(sc))
			}
			return us
		},
	})
}
