package main

// Probes are transparent user-defined policies placed between the policies of a stack. They
// record what each layer was asked and what it answered, which makes the statement "each policy
// handles only what the policy inside it returned" checkable layer by layer.

import (
	"github.com/failsafe-go/failsafe-go"
	"github.com/failsafe-go/failsafe-go/common"
	"github.com/failsafe-go/failsafe-go/verifrt/vrt"
	"sort"
)

// Rec is one probe record: layer i sits just outside policy i; layer len(stack) wraps the function.
type Rec struct {
	Layer     int
	Enter     bool
	App       int // application number within the layer (in enter order)
	Seq       int // position in the execution's probe log
	T         int64
	Thread    int
	Creator   int  // the thread that spawned Thread
	ThreadSeq int  // position of Thread in the order of all spawns
	Spawned   int  // threads spawned so far when this record was made
	CtxDone   bool // exit records: the execution's context was done when the layer returned
	Exec      failsafe.Execution[int]
	// exit only
	Res             *common.PolicyResult[int]
	CanceledAtExit  bool
	CanceledAtEnter bool
	Attempts, Execs int
	Retries, Hedges int
	IsHedge         bool
	LastV           int
	LastE           error
}

type App struct {
	Started    int     // hedge layers: attempts actually started (goroutines spawned by the application that entered the next layer)
	Announced  int     // hedge layers: 1 + OnHedge events
	StartTimes []int64 // hedge layers: instants of the OnHedge events
	LateChild  bool    // an attempt only got to run after the application had returned
	Layer      int
	N          int
	In, Out    *Rec // Out is nil if the application never returned
	Children   []*App
	Parent     *App
}

type probe struct {
	env   *Env
	layer int
}

func (p *probe) ToExecutor(_ int) any { return p }

func (p *probe) Apply(inner func(failsafe.Execution[int]) *common.PolicyResult[int]) func(failsafe.Execution[int]) *common.PolicyResult[int] {
	return func(exec failsafe.Execution[int]) *common.PolicyResult[int] {
		p.env.obs()
		app := p.env.recEnter(p.layer, exec)
		r := inner(exec)
		p.env.obs()
		p.env.recExit(p.layer, app, exec, r)
		if p.layer < len(p.env.Stack) && p.env.Stack[p.layer].Kind == KHedge {
			p.env.sampleHedgeCancel(p.layer, app)
		}
		return r
	}
}

//go:norace
func (env *Env) recEnter(layer int, exec failsafe.Execution[int]) int {
	app := env.appCount[layer]
	env.appCount[layer]++
	env.seq++
	rec := &Rec{Layer: layer, Enter: true, App: app, Seq: env.seq, T: vrt.Elapsed(), Thread: vrt.ThreadID(), Creator: vrt.ThreadCreator(vrt.ThreadID()), ThreadSeq: vrt.ThreadSpawnSeq(vrt.ThreadID()), Spawned: vrt.SpawnCount(), Exec: exec}
	if env.ProbeStats {
		rec.Attempts, rec.Execs, rec.Retries, rec.Hedges, rec.IsHedge = exec.Attempts(), exec.Executions(), exec.Retries(), exec.Hedges(), exec.IsHedge()
	}
	env.Recs = append(env.Recs, rec)
	env.openApps++
	return app
}

//go:norace
func (env *Env) recExit(layer, app int, exec failsafe.Execution[int], r *common.PolicyResult[int]) {
	env.seq++
	rec := &Rec{Layer: layer, App: app, Seq: env.seq, T: vrt.Elapsed(), Thread: vrt.ThreadID(), Creator: vrt.ThreadCreator(vrt.ThreadID()), ThreadSeq: vrt.ThreadSpawnSeq(vrt.ThreadID()), Spawned: vrt.SpawnCount(), Exec: exec, Res: r}
	if env.ProbeStats {
		rec.Attempts, rec.Execs, rec.Retries, rec.Hedges, rec.IsHedge = exec.Attempts(), exec.Executions(), exec.Retries(), exec.Hedges(), exec.IsHedge()
	}
	if ctx := exec.Context(); ctx != nil && ctx.Err() != nil {
		rec.CtxDone = true
	}
	env.Recs = append(env.Recs, rec)
	env.openApps--
}

//go:norace
func (env *Env) busy() bool { return env.openApps > 0 || env.InFlight > 0 }

// WithProbes returns the policy list with a probe outside every policy and one around the function.
func (env *Env) WithProbes() []failsafe.Policy[int] {
	env.appCount = make([]int, len(env.Policies)+1)
	var ps []failsafe.Policy[int]
	for i, p := range env.Policies {
		ps = append(ps, &probe{env, i}, p)
	}
	ps = append(ps, &probe{env, len(env.Policies)})
	return ps
}

// Apps reconstructs the application tree from the probe log. An application of layer i+1 belongs
// to the application of layer i that was open (entered, not yet exited) when it entered; with
// several candidates (hedge attempts of the same layer running at once) the one on the same
// thread wins, else the most recently entered.
func (env *Env) Apps() (roots []*App, byLayer [][]*App) {
	n := len(env.Policies) + 1
	byLayer = make([][]*App, n)
	open := make([][]*App, n)
	find := func(layer, app int) *App {
		for _, a := range byLayer[layer] {
			if a.N == app {
				return a
			}
		}
		return nil
	}
	for _, r := range env.Recs {
		if r.Enter {
			a := &App{Layer: r.Layer, N: r.App, In: r}
			byLayer[r.Layer] = append(byLayer[r.Layer], a)
			if r.Layer == 0 {
				roots = append(roots, a)
			} else {
				var par *App
				cands := open[r.Layer-1]
				for i := len(cands) - 1; i >= 0; i-- {
					if cands[i].In.Thread == r.Thread {
						par = cands[i]
						break
					}
				}
				if par == nil && len(cands) > 0 {
					par = cands[len(cands)-1]
				}
				if par != nil {
					a.Parent = par
					par.Children = append(par.Children, a)
				}
			}
			open[r.Layer] = append(open[r.Layer], a)
		} else {
			a := find(r.Layer, r.App)
			if a == nil {
				continue
			}
			a.Out = r
			for i, o := range open[r.Layer] {
				if o == a {
					open[r.Layer] = append(open[r.Layer][:i:i], open[r.Layer][i+1:]...)
					break
				}
			}
		}
	}
	env.reattributeHedgeChildren(byLayer)
	return
}

// reattributeHedgeChildren: a hedge application starts 1 + (number of its OnHedge events) attempts,
// each on a new goroutine that may only get to run after the application has returned (and after a
// later application of the same layer has started its own). The attempts of an application are
// therefore identified by thread ancestry: spawned by the application's thread between its entry and
// its return.
func (env *Env) reattributeHedgeChildren(byLayer [][]*App) {
	for i, s := range env.Stack {
		if s.Kind != KHedge || i+1 >= len(byLayer) {
			continue
		}
		for _, c := range byLayer[i+1] {
			c.Parent = nil
		}
		for _, a := range byLayer[i] {
			a.Children = nil
			a.Announced = 1
			hi := 1 << 60
			if a.Out != nil {
				hi = a.Out.Seq
			}
			for _, e := range env.Events {
				if e.Policy == i && e.Name == "hedge" && e.Seq > a.In.Seq && e.Seq < hi {
					a.Announced++
					a.StartTimes = append(a.StartTimes, e.At)
				}
			}
			// an attempt runs on a goroutine spawned by the thread that runs the application, between the
			// application's entry and its return: that, not the OnHedge events, says what was started
			cands := append([]*App{}, byLayer[i+1]...)
			sort.SliceStable(cands, func(x, y int) bool { return cands[x].In.ThreadSeq < cands[y].In.ThreadSeq })
			for _, c := range cands {
				if c.In.Creator != a.In.Thread || c.In.ThreadSeq < a.In.Spawned || (a.Out != nil && c.In.ThreadSeq >= a.Out.Spawned) {
					continue
				}
				c.Parent = a
				a.Children = append(a.Children, c)
				if a.Out != nil && c.In.Seq > a.Out.Seq {
					a.LateChild = true
				}
			}
			a.Started = len(a.Children)
		}
	}
}

// sampleHedgeCancel records, at the moment a hedge application returns, which of its attempts'
// executions are cancelled.
func (env *Env) sampleHedgeCancel(layer, app int) {
	var in *Rec
	for _, r := range env.recsSnapshot() {
		if r.Layer == layer && r.App == app && r.Enter {
			in = r
		}
	}
	if in == nil {
		return
	}
	for _, r := range env.recsSnapshot() {
		if r.Layer == layer+1 && r.Enter && r.Seq > in.Seq {
			c := r.Exec.IsCanceled()
			env.setCancelAtReturn(r, c)
		}
	}
}

//go:norace
func (env *Env) recsSnapshot() []*Rec { return env.Recs[:len(env.Recs):len(env.Recs)] }

//go:norace
func (env *Env) setCancelAtReturn(r *Rec, c bool) {
	if env.CancelAtReturn == nil {
		env.CancelAtReturn = map[*Rec]bool{}
	}
	if _, ok := env.CancelAtReturn[r]; !ok {
		env.CancelAtReturn[r] = c
	}
}
