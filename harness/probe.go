package main

// Probes are transparent user-defined policies placed between the policies of a stack. They
// record what each layer was asked and what it answered, which makes the statement "each policy
// handles only what the policy inside it returned" checkable layer by layer.

import (
	"github.com/failsafe-go/failsafe-go"
	"github.com/failsafe-go/failsafe-go/common"
	"github.com/failsafe-go/failsafe-go/verifrt/vrt"
)

// Rec is one probe record: layer i sits just outside policy i; layer len(stack) wraps the function.
type Rec struct {
	Layer  int
	Enter  bool
	App    int // application number within the layer (in enter order)
	Seq    int // position in the execution's probe log
	T      int64
	Thread int
	Exec   failsafe.Execution[int]
	// exit only
	Res             *common.PolicyResult[int]
	CanceledAtExit  bool
	CanceledAtEnter bool
	Attempts, Execs int
	Retries, Hedges int
	IsHedge         bool
	LastV           int
	LastE           error
}

type App struct {
	Layer    int
	N        int
	In, Out  *Rec // Out is nil if the application never returned
	Children []*App
	Parent   *App
}

type probe struct {
	env   *Env
	layer int
}

func (p *probe) ToExecutor(_ int) any { return p }

func (p *probe) Apply(inner func(failsafe.Execution[int]) *common.PolicyResult[int]) func(failsafe.Execution[int]) *common.PolicyResult[int] {
	return func(exec failsafe.Execution[int]) *common.PolicyResult[int] {
		app := p.env.recEnter(p.layer, exec)
		r := inner(exec)
		p.env.recExit(p.layer, app, exec, r)
		return r
	}
}

//go:norace
func (env *Env) recEnter(layer int, exec failsafe.Execution[int]) int {
	app := env.appCount[layer]
	env.appCount[layer]++
	rec := &Rec{Layer: layer, Enter: true, App: app, Seq: len(env.Recs), T: vrt.Elapsed(), Thread: vrt.ThreadID(), Exec: exec}
	if env.ProbeStats {
		rec.Attempts, rec.Execs, rec.Retries, rec.Hedges, rec.IsHedge = exec.Attempts(), exec.Executions(), exec.Retries(), exec.Hedges(), exec.IsHedge()
	}
	env.Recs = append(env.Recs, rec)
	return app
}

//go:norace
func (env *Env) recExit(layer, app int, exec failsafe.Execution[int], r *common.PolicyResult[int]) {
	rec := &Rec{Layer: layer, App: app, Seq: len(env.Recs), T: vrt.Elapsed(), Thread: vrt.ThreadID(), Exec: exec, Res: r}
	if env.ProbeStats {
		rec.Attempts, rec.Execs, rec.Retries, rec.Hedges, rec.IsHedge = exec.Attempts(), exec.Executions(), exec.Retries(), exec.Hedges(), exec.IsHedge()
	}
	env.Recs = append(env.Recs, rec)
}

// WithProbes returns the policy list with a probe outside every policy and one around the function.
func (env *Env) WithProbes() []failsafe.Policy[int] {
	env.appCount = make([]int, len(env.Policies)+1)
	var ps []failsafe.Policy[int]
	for i, p := range env.Policies {
		ps = append(ps, &probe{env, i}, p)
	}
	ps = append(ps, &probe{env, len(env.Policies)})
	return ps
}

// Apps reconstructs the application tree from the probe log. An application of layer i+1 belongs
// to the application of layer i that was open (entered, not yet exited) when it entered; with
// several candidates (hedge attempts of the same layer running at once) the one on the same
// thread wins, else the most recently entered.
func (env *Env) Apps() (roots []*App, byLayer [][]*App) {
	n := len(env.Policies) + 1
	byLayer = make([][]*App, n)
	open := make([][]*App, n)
	find := func(layer, app int) *App {
		for _, a := range byLayer[layer] {
			if a.N == app {
				return a
			}
		}
		return nil
	}
	for _, r := range env.Recs {
		if r.Enter {
			a := &App{Layer: r.Layer, N: r.App, In: r}
			byLayer[r.Layer] = append(byLayer[r.Layer], a)
			if r.Layer == 0 {
				roots = append(roots, a)
			} else {
				var par *App
				cands := open[r.Layer-1]
				for i := len(cands) - 1; i >= 0; i-- {
					if cands[i].In.Thread == r.Thread {
						par = cands[i]
						break
					}
				}
				if par == nil && len(cands) > 0 {
					par = cands[len(cands)-1]
				}
				if par != nil {
					a.Parent = par
					par.Children = append(par.Children, a)
				}
			}
			open[r.Layer] = append(open[r.Layer], a)
		} else {
			a := find(r.Layer, r.App)
			a.Out = r
			for i, o := range open[r.Layer] {
				if o == a {
					open[r.Layer] = append(open[r.Layer][:i:i], open[r.Layer][i+1:]...)
					break
				}
			}
		}
	}
	return
}
