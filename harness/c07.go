package main

// C07 — Timeout outcome is exclusive and consistent, and never early (SX).

import (
	"fmt"
	"time"
)

const c07L = 100 * time.Nanosecond

func c07Scenarios(tier string) []*Scenario {
	L := c07L
	bound := 2
	if tier == "thorough" {
		bound = 4
	}
	var out []*Scenario
	var extra func(env *Env) string // additional oracle for the scenarios added while it is set
	var ctxDeadline time.Duration   // the scenarios added while it is set run under a caller context with this deadline
	add := func(name string, stack []Spec, script []Out) {
		ex := extra
		if ctxDeadline != 0 {
			name += fmt.Sprintf("/caller-deadline=%d", int64(ctxDeadline))
		}
		check := func(env *Env) string {
			if ex != nil {
				if msg := ex(env); msg != "" {
					return msg
				}
			}
			_, byLayer := env.Apps()
			for i, s := range env.Stack {
				if s.Kind == KTimeout {
					if msg := env.checkTimeoutLayer(i, byLayer[i]); msg != "" {
						return msg
					}
				}
			}
			return ""
		}
		out = append(out, &Scenario{
			Name:  fmt.Sprintf("C07/%s [%s] script=%s", name, stackStr(stack), scriptStr(script)),
			Bound: bound, Reduce: true,
			Body: stackBody(stack, script, RunOpts{Grace: 10 * L, Probes: true, Reduce: true, Check: check, CtxDeadline: ctxDeadline}),
		})
	}
	T := Spec{Kind: KTimeout, Limit: L}
	durs := []time.Duration{0, L - 1, L, L + 1, 3 * L}
	if tier == "thorough" {
		durs = []time.Duration{0, 1, L / 2, L - 1, L, L + 1, 2 * L, 3 * L}
	}
	// bare
	for _, d := range durs {
		add("bare", []Spec{T}, []Out{{V: 1, Dur: d}})
		add("bare", []Spec{T}, []Out{{Err: E1, Dur: d}})
	}
	add("bare", []Spec{T}, []Out{{V: 1, Block: true}})
	add("bare", []Spec{T}, []Out{{Err: E1, Block: true}})
	add("bare", []Spec{T}, []Out{{V: 1, Block: true, Dur: L}})
	add("bare", []Spec{T}, []Out{{V: 1, Dur: L, Coop: true}})
	// a zero or negative limit (an exhausted budget): exceeded at once
	for _, l := range []time.Duration{0, -1, -time.Second} {
		add("bare-nonpositive-limit", []Spec{{Kind: KTimeout, Limit: l}}, []Out{{V: 1, Block: true}})
		add("bare-nonpositive-limit", []Spec{{Kind: KTimeout, Limit: l}}, []Out{{V: 1, Dur: 30}})
		add("retry(nonpositive-limit)", []Spec{{Kind: KRetry, MaxRetries: 1}, {Kind: KTimeout, Limit: l}}, []Out{{V: 1, Block: true}})
	}
	// Retry(Timeout): the limit applies afresh to each attempt
	R := Spec{Kind: KRetry, MaxRetries: 2}
	for _, first := range []Out{{Block: true, V: 1}, {Err: E1, Dur: L}, {Err: E1, Dur: L + 1}, {Err: E1, Dur: L - 1}} {
		for _, second := range []Out{{V: 1}, {V: 1, Dur: L}, {Block: true, V: 1}} {
			add("retry(timeout)", []Spec{R, T}, []Out{first, second})
		}
	}
	Rd := Spec{Kind: KRetry, MaxRetries: 2, Delay: 30}
	add("retry(timeout)+delay", []Spec{Rd, T}, []Out{{Block: true}, {V: 1, Dur: L}})
	// Timeout(Retry): one limit for all attempts; the timer lands inside the function, at its
	// return, or inside the retry delay
	for _, delay := range []time.Duration{40, 70} {
		Rx := Spec{Kind: KRetry, MaxRetries: 3, Delay: delay}
		add("timeout(retry)", []Spec{T, Rx}, []Out{{Err: E1, Dur: 30}, {Err: E1, Dur: 30}, {V: 1, Dur: 30}})
		add("timeout(retry)", []Spec{T, Rx}, []Out{{Err: E1, Dur: 30, Coop: true}, {Err: E1, Dur: 30, Coop: true}})
	}
	// Fallback(Timeout)
	F := Spec{Kind: KFallback, FbV: 9}
	add("fallback(timeout)", []Spec{F, T}, []Out{{V: 1, Block: true}})
	add("fallback(timeout)", []Spec{F, T}, []Out{{Err: E1, Dur: L}})
	add("timeout(fallback)", []Spec{T, F}, []Out{{Err: E1, Dur: L}})
	// Timeout(Hedge), Hedge(Timeout)
	H := Spec{Kind: KHedge, MaxHedges: 1, HDelay: 50}
	add("timeout(hedge)", []Spec{T, H}, []Out{{V: 1, Block: true}, {V: 2, Dur: 50}})
	add("timeout(hedge)", []Spec{T, H}, []Out{{V: 1, Dur: L, Coop: true}, {V: 2, Block: true}})
	add("hedge(timeout)", []Spec{H, T}, []Out{{V: 1, Block: true}, {V: 2, Dur: 30}})
	add("hedge(timeout)", []Spec{H, T}, []Out{{V: 1, Block: true}, {V: 2, Dur: L}})
	// Hedge(Retry(Timeout)) and Hedge(Fallback(Timeout)): a Timeout exceeded inside a hedged attempt cancels what is
	// inside that Timeout only; the retry around it tries again under a fresh limit, the fallback is applied
	{
		want := func(v int, invs int, timeouts int) func(env *Env) string {
			return func(env *Env) string {
				if env.ResV != v || env.ResE != nil {
					return fmt.Sprintf("caller got (%d,%v), want (%d,nil)", env.ResV, env.ResE, v)
				}
				if len(env.Invs) != invs {
					return fmt.Sprintf("%d invocations, want %d", len(env.Invs), invs)
				}
				n := 0
				for _, e := range env.Events {
					if e.Name == "timeout" {
						n++
					}
				}
				if n != timeouts {
					return fmt.Sprintf("OnTimeoutExceeded fired %d times, want %d", n, timeouts)
				}
				return ""
			}
		}
		HR := Spec{Kind: KHedge, MaxHedges: 1, HDelay: 10}
		R1 := Spec{Kind: KRetry, MaxRetries: 3} // (the budget is shared by the attempts of one execution)
		extra = want(2, 4, 2)
		add("hedge(retry(timeout))", []Spec{HR, R1, T}, []Out{{V: 1, Block: true}, {V: 1, Block: true}, {V: 1, Dur: 3 * L, Coop: true}, {V: 2, Dur: 5}})
		extra = want(9, 2, 2)
		add("hedge(fallback(timeout))", []Spec{{Kind: KHedge, MaxHedges: 1, HDelay: 10, Cancel: []Cond{{K: "result", V: 77}}}, F, T}, []Out{{V: 1, Block: true}, {V: 1, Block: true}})
		extra = nil
	}
	// the caller's context has a deadline of its own, well before the time limit: the Timeout does not
	// borrow it (ErrExceeded never before the limit; a function that ignores the deadline returns its result)
	ctxDeadline = 10
	add("bare", []Spec{T}, []Out{{V: 1, Dur: 30}})
	add("bare", []Spec{T}, []Out{{Err: E1, Dur: 30}})
	add("bare", []Spec{T}, []Out{{V: 1, Dur: L}})
	add("bare", []Spec{T}, []Out{{V: 1, Block: true}})
	add("fallback(timeout)", []Spec{F, T}, []Out{{V: 1, Dur: 30}})
	ctxDeadline = 0
	// bulkhead / rate limiter inside and outside
	for _, w := range []time.Duration{L - 1, L, L + 50} {
		add("timeout(bulkhead-full)", []Spec{T, {Kind: KBulkhead, Conc: 1, BWait: w, Held: 1}}, []Out{{V: 1}})
	}
	add("bulkhead(timeout)", []Spec{{Kind: KBulkhead, Conc: 1}, T}, []Out{{V: 1, Dur: L}})
	for _, w := range []time.Duration{L, 10 * L} {
		add("timeout(limiter-wait)", []Spec{T, {Kind: KLimiter, Permits: 1, Period: 10 * L, LWait: w, Used: 1}}, []Out{{V: 1}})
	}
	add("timeout(limiter-wait)", []Spec{T, {Kind: KLimiter, Smooth: true, Interval: L, LWait: 10 * L, Used: 1}}, []Out{{V: 1}})
	add("limiter(timeout)", []Spec{{Kind: KLimiter, Smooth: true, Interval: L, LWait: 10 * L, Used: 1}, T}, []Out{{V: 1, Dur: L}})
	return out
}

func init() {
	scenarioSets["C07"] = c07Scenarios
	register(&CheckDef{
		Property:  "C07",
		Technique: "stateless schedule exploration (preemption-bounded DFS) of the instrumented library under a virtual clock",
		Rule: "one execution = one complete schedule of the real timeout executor with its timer thread; every lock/atomic/channel/context/timer step is a scheduling point, " +
			"timers due at the same virtual instant fire in every order; distinct = distinct observation logs (result, instants, listener calls)",
		Assume: []string{"sequentially consistent interleavings at synchronisation granularity", "code runs in zero virtual time; a thread never stalls for a whole time limit between two adjacent statements",
			"instrumentation by source rewriting preserves semantics (DESIGN.md §2)"},
		Units: func(tier string) []Unit {
			var us []Unit
			for _, sc := range c07Scenarios(tier) {
				us = append(us, scenarioUnit(sc))
			}
			return us
		},
	})
}
