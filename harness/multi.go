package main

// Scenarios with several concurrent executions (and standalone API callers) sharing policy instances.

import (
	"context"
	"errors"
	"fmt"
	"github.com/failsafe-go/failsafe-go/cachepolicy"
	"time"

	"github.com/failsafe-go/failsafe-go"
	"github.com/failsafe-go/failsafe-go/verifrt/vcontext"
	"github.com/failsafe-go/failsafe-go/verifrt/vrt"
	"github.com/failsafe-go/failsafe-go/verifrt/vsync"
)

type ExeSpec struct {
	Script      []Out
	StartAt     time.Duration
	Async       bool
	Ctx         string        // "", "cancel", "deadline"
	CancelAt    time.Duration // instant at which the canceller thread fires / the deadline
	CancelAsync bool          // cancel through ExecutionResult.Cancel() at CancelAt
	Sub         []int         // indices of the stack's policies this execution uses (nil = all)
	CacheKey    any           // non-nil: supplied through the context as cachepolicy.CacheKey
}

func (e ExeSpec) String() string {
	s := scriptStr(e.Script)
	if e.StartAt != 0 {
		s += fmt.Sprintf("@%d", int64(e.StartAt))
	}
	if e.Async {
		s += " async"
	}
	if e.Ctx != "" {
		s += fmt.Sprintf(" ctx-%s@%d", e.Ctx, int64(e.CancelAt))
	}
	if e.CacheKey != nil {
		s += fmt.Sprintf(" key=%#v", e.CacheKey)
	}
	if e.CancelAsync {
		s += fmt.Sprintf(" Cancel()@%d", int64(e.CancelAt))
	}
	return s
}

func exesStr(es []ExeSpec) string {
	s := ""
	for i, e := range es {
		if i > 0 {
			s += " || "
		}
		s += e.String()
	}
	return s
}

var errCustomCause = errors.New("custom cancellation cause")

type MultiOpts struct {
	Quiet          bool // no event recording (race build: the harness must not share memory between threads)
	TagContext     bool // give every execution a context value identifying it, and register the executor listeners
	Grace          time.Duration
	Extra          []func(env *Env) // extra harness threads (standalone API callers)
	Setup          func(env *Env)
	Final          func(env *Env) string
	Reduce         bool
	SharedExecutor bool // every execution runs through one Executor value (WithContext copies of it) instead of one built per execution
}

func multiBody(stack []Spec, exes []ExeSpec, o MultiOpts) func() {
	return func() {
		env := newEnvQuiet(stack, o.Quiet)
		env.Reduce = o.Reduce
		if o.Setup != nil {
			o.Setup(env)
		}
		var shared failsafe.Executor[int]
		if o.SharedExecutor {
			shared = failsafe.NewExecutor[int](env.Policies...)
		}
		var wg vsync.WaitGroup
		for _, es := range exes {
			es := es
			x := env.NewExe(es.Script)
			wg.Add(1)
			vrt.GoH(fmt.Sprintf("exe%d", x.ID), func() {
				defer wg.Done()
				if es.StartAt > 0 {
					vrt.Sleep(int64(es.StartAt))
				}
				pol := env.Policies
				if es.Sub != nil {
					pol = nil
					for _, i := range es.Sub {
						pol = append(pol, env.Policies[i])
					}
				}
				ex := failsafe.NewExecutor[int](pol...)
				if shared != nil && es.Sub == nil {
					ex = shared
				}
				if o.TagContext {
					ex = ex.WithContext(context.WithValue(context.Background(), exeKeyT{}, x.ID))
					ex = ex.OnDone(env.doneEv(-1, "done")).OnSuccess(env.doneEv(-1, "success")).OnFailure(env.doneEv(-1, "failure"))
				}
				base := context.Background()
				if es.CacheKey != nil {
					base = context.WithValue(base, cachepolicy.CacheKey, es.CacheKey)
					if es.Ctx == "" {
						ex = ex.WithContext(base)
					}
				}
				switch es.Ctx {
				case "cancel":
					ctx, cancel := vcontext.WithCancel(base)
					x.Ctx = ctx
					ex = ex.WithContext(ctx)
					wg.Add(1)
					vrt.GoH(fmt.Sprintf("canceller%d", x.ID), func() {
						defer wg.Done()
						vrt.Sleep(int64(es.CancelAt))
						env.obs()
						x.CancelTick0, x.CancelTime = env.Tick, vrt.Elapsed()
						cancel()
						env.obs()
						x.CancelTick1 = env.Tick
					})
				case "cancelcause":
					ctx, cancel := vcontext.WithCancelCause(base)
					x.Ctx = ctx
					ex = ex.WithContext(ctx)
					wg.Add(1)
					vrt.GoH(fmt.Sprintf("canceller%d", x.ID), func() {
						defer wg.Done()
						vrt.Sleep(int64(es.CancelAt))
						env.obs()
						x.CancelTick0, x.CancelTime = env.Tick, vrt.Elapsed()
						cancel(errCustomCause)
						env.obs()
						x.CancelTick1 = env.Tick
					})
				case "deadlinecause":
					ctx, cancel := vcontext.WithDeadlineCause(base, time.Unix(0, vrt.Now()).Add(es.CancelAt-es.StartAt), errCustomCause)
					defer cancel()
					x.Ctx = ctx
					ex = ex.WithContext(ctx)
				case "deadline":
					ctx, cancel := vcontext.WithDeadline(base, time.Unix(0, vrt.Now()).Add(es.CancelAt-es.StartAt))
					defer cancel()
					x.Ctx = ctx
					ex = ex.WithContext(ctx)
				}
				env.obs()
				x.StartedAt, x.StartTick = vrt.Elapsed(), env.Tick
				if es.Async {
					res := ex.GetWithExecutionAsync(x.Fn)
					if es.CancelAsync {
						wg.Add(1)
						vrt.GoH(fmt.Sprintf("canceller%d", x.ID), func() {
							defer wg.Done()
							if d := int64(es.CancelAt) - vrt.Elapsed(); d > 0 {
								vrt.Sleep(d)
							}
							env.obs()
							x.CancelTick0, x.CancelTime = env.Tick, vrt.Elapsed()
							x.DoneBeforeCancel = res.IsDone()
							x.AsyncCancel = true
							res.Cancel()
							env.obs()
							x.CancelTick1 = env.Tick
						})
					}
					x.ResV, x.ResE = res.Get()
				} else {
					x.ResV, x.ResE = ex.GetWithExecution(x.Fn)
				}
				x.Completed, x.DoneAt = true, vrt.Elapsed()
			})
		}
		for i, f := range o.Extra {
			f := f
			wg.Add(1)
			vrt.GoH(fmt.Sprintf("extra%d", i), func() {
				defer wg.Done()
				f(env)
			})
		}
		wg.Wait()
		if o.Grace > 0 {
			vrt.Sleep(int64(o.Grace))
		}
		s := ""
		for _, x := range env.Exes {
			s += fmt.Sprintf("x%d=(%d,%s)@%d/%d ", x.ID, x.ResV, errStr(x.ResE), x.DoneAt, len(x.Invs))
		}
		vrt.Mark(s + env.Notes)
		if o.Final != nil {
			if msg := o.Final(env); msg != "" {
				vrt.Fail(msg)
			}
		}
	}
}
