package main

// C16, concurrent part: executions that share listeners; every execution's own events must tell its
// own story (events are attributed through a context value).

import (
	"context"
	"errors"
	"fmt"
	"strings"
	"time"

	"github.com/failsafe-go/failsafe-go"
	"github.com/failsafe-go/failsafe-go/bulkhead"
	"github.com/failsafe-go/failsafe-go/circuitbreaker"
	"github.com/failsafe-go/failsafe-go/fallback"
	"github.com/failsafe-go/failsafe-go/ratelimiter"
	"github.com/failsafe-go/failsafe-go/retrypolicy"
	"github.com/failsafe-go/failsafe-go/timeout"
	"github.com/failsafe-go/failsafe-go/verifrt/vcontext"
	"github.com/failsafe-go/failsafe-go/verifrt/vrt"
)

func c16ConcurrentScenarios(tier string) []*Scenario {
	bound := 1
	if tier == "thorough" {
		bound = 2
	}
	var out []*Scenario
	add := func(name string, stack []Spec, exes []ExeSpec) {
		out = append(out, &Scenario{
			Name:  fmt.Sprintf("C16/shared-listeners/%s [%s] %s", name, stackStr(stack), exesStr(exes)),
			Bound: bound, Reduce: true,
			Body: multiBody(stack, exes, MultiOpts{Reduce: true, TagContext: true, Final: func(env *Env) string {
				for _, x := range env.Exes {
					cnt := map[string]int{}
					var doneEv *Event
					for i := range env.Events {
						e := &env.Events[i]
						if e.Exe != x.ID {
							continue
						}
						cnt[e.String()]++
						if e.Policy == -1 && e.Name == "done" {
							doneEv = e
						}
					}
					if cnt["done"] != 1 || cnt["success"]+cnt["failure"] != 1 {
						return fmt.Sprintf("execution %d: executor events done=%d success=%d failure=%d", x.ID, cnt["done"], cnt["success"], cnt["failure"])
					}
					if doneEv.V != x.ResV || doneEv.E != x.ResE {
						return fmt.Sprintf("execution %d: done event carries (%d,%v), the caller got (%d,%v)", x.ID, doneEv.V, doneEv.E, x.ResV, x.ResE)
					}
					if (cnt["success"] == 1) != (x.ResE == nil) && stack[0].Kind == KRetry && len(stack) == 1 {
						return fmt.Sprintf("execution %d: success event x%d but result error %v", x.ID, cnt["success"], x.ResE)
					}
					for i, s := range stack {
						if s.Kind != KRetry {
							continue
						}
						p := fmt.Sprintf("p%d.", i)
						n := len(x.Invs)
						refused := 0
						if n == 0 {
							continue
						}
						_ = refused
						if stack[len(stack)-1].Kind == KRetry {
							if cnt[p+"scheduled"] != n-1 || cnt[p+"retry"] != n-1 {
								return fmt.Sprintf("execution %d: %d invocations, OnRetryScheduled x%d OnRetry x%d", x.ID, n, cnt[p+"scheduled"], cnt[p+"retry"])
							}
							nf := 0
							for k := range x.Invs {
								o := x.Script[min(k, len(x.Script)-1)]
								if isFailure(s.Handle, o.V, o.Err) {
									nf++
								}
							}
							if cnt[p+"failure"] != nf || cnt[p+"success"] != n-nf {
								return fmt.Sprintf("execution %d: OnFailure x%d OnSuccess x%d for %d failures in %d invocations", x.ID, cnt[p+"failure"], cnt[p+"success"], nf, n)
							}
							if cnt[p+"exceeded"] > 1 || (cnt[p+"exceeded"] == 1) != (nf > s.MaxRetries) {
								return fmt.Sprintf("execution %d: OnRetriesExceeded x%d, result %v, %d failures, maxRetries %d", x.ID, cnt[p+"exceeded"], x.ResE, nf, s.MaxRetries)
							}
						}
					}
				}
				return ""
			}}),
		})
	}
	failing := []Out{{Err: E1}}
	failOnce := []Out{{Err: E1}, {V: 1}}
	r := Spec{Kind: KRetry, MaxRetries: 1}
	add("retry", []Spec{r}, []ExeSpec{{Script: failing}, {Script: failOnce}})
	add("retry-async", []Spec{r}, []ExeSpec{{Script: failing, Async: true}, {Script: failOnce}})
	add("retry-delay", []Spec{{Kind: KRetry, MaxRetries: 2, Delay: 10}}, []ExeSpec{{Script: failing}, {Script: []Out{{V: 1}}, StartAt: 5}})
	add("fallback(retry)", []Spec{{Kind: KFallback, FbV: 9}, r}, []ExeSpec{{Script: failing}, {Script: failOnce}})
	add("retry(breaker)", []Spec{r, {Kind: KBreaker, FT: 5, FC: 5, BDelay: time.Hour}}, []ExeSpec{{Script: failing}, {Script: failOnce}})
	return out
}

// c16StoryScenarios: events shared by several threads, or racing with a cancellation, still tell what
// happened: breaker state changes form a connected path that ends in the breaker's state, with the
// specific listener matching the generic one; OnFull / OnRateLimitExceeded fire exactly for the
// executions that were refused.
func c16StoryScenarios(tier string) []*Scenario {
	bound := 2
	if tier == "thorough" {
		bound = 3
	}
	var out []*Scenario
	breakerPath := func(env *Env) string {
		for bi, s := range env.Stack {
			if s.Kind != KBreaker {
				continue
			}
			cur := circuitbreaker.ClosedState
			var generic, specific []string
			for _, e := range env.Events {
				if e.Policy != bi {
					continue
				}
				switch e.Name {
				case "changed":
					if e.Old != cur {
						return fmt.Sprintf("breaker %d: OnStateChanged %v->%v follows a change that ended in %v: not a connected path from the initial state", bi, e.Old, e.New, cur)
					}
					cur = e.New
					generic = append(generic, fmt.Sprint(e.New))
				case "open", "close", "halfopen":
					want := map[string]circuitbreaker.State{"open": circuitbreaker.OpenState, "close": circuitbreaker.ClosedState, "halfopen": circuitbreaker.HalfOpenState}[e.Name]
					if e.New != want {
						return fmt.Sprintf("breaker %d: listener %s called for a change to %v", bi, e.Name, e.New)
					}
					specific = append(specific, fmt.Sprint(e.New))
				}
			}
			if strings.Join(generic, ",") != strings.Join(specific, ",") {
				return fmt.Sprintf("breaker %d: generic listener saw [%s], the specific listeners [%s]", bi, strings.Join(generic, ","), strings.Join(specific, ","))
			}
			if got := env.Breakers[bi].State(); got != cur {
				return fmt.Sprintf("breaker %d is %v, its last state-change event ended in %v", bi, got, cur)
			}
		}
		return ""
	}
	refusals := func(env *Env) string {
		for i, s := range env.Stack {
			var ev string
			var refusal error
			switch s.Kind {
			case KBulkhead:
				ev, refusal = "full", bulkhead.ErrFull
			case KLimiter:
				ev, refusal = "ratelimited", ratelimiter.ErrExceeded
			default:
				continue
			}
			fired, refused := 0, 0
			for _, e := range env.Events {
				if e.Policy == i && e.Name == ev {
					fired++
				}
			}
			for _, x := range env.Exes {
				if errors.Is(x.ResE, refusal) {
					refused++
				}
			}
			if i == 0 && fired != refused {
				return fmt.Sprintf("%s listener of policy %d fired %d times, %d executions were refused with %v", ev, i, fired, refused, refusal)
			}
		}
		return ""
	}
	add := func(name string, stack []Spec, exes []ExeSpec, check func(*Env) string, extra ...func(*Env)) {
		out = append(out, &Scenario{
			Name:  fmt.Sprintf("C16/story/%s [%s] %s", name, stackStr(stack), exesStr(exes)),
			Bound: bound, Reduce: true,
			Body: multiBody(stack, exes, MultiOpts{Reduce: true, Grace: 100, Extra: extra, Final: check}),
		})
	}
	fail := []Out{{Err: E1}}
	ok := []Out{{V: 1}}
	cb := Spec{Kind: KBreaker, FT: 1, FC: 1, BDelay: 10}
	manual := func(env *Env) { env.Breakers[0].HalfOpen(); env.Breakers[0].Close() }
	add("breaker-open-vs-manual", []Spec{cb}, []ExeSpec{{Script: fail}}, breakerPath, manual)
	add("breaker-two-failures", []Spec{cb}, []ExeSpec{{Script: fail}, {Script: fail}}, breakerPath)
	add("breaker-trial", []Spec{cb}, []ExeSpec{{Script: fail}, {Script: ok, StartAt: 10}, {Script: fail, StartAt: 10}}, breakerPath)
	add("breaker-open-vs-manual-open", []Spec{{Kind: KBreaker, FT: 2, FC: 2, BDelay: 10}}, []ExeSpec{{Script: fail}, {Script: fail}}, breakerPath, func(env *Env) { env.Breakers[0].Open(); env.Breakers[0].Close() })
	// refusal listeners against cancellations that land while an execution waits for a permit
	bw := Spec{Kind: KBulkhead, Conc: 1, Held: 1, BWait: 100}
	lw := Spec{Kind: KLimiter, Smooth: true, Interval: 100, LWait: 1000, Used: 1}
	for _, src := range []string{"cancel", "deadline"} {
		add("bulkhead-wait-cancelled", []Spec{bw}, []ExeSpec{{Script: ok, Ctx: src, CancelAt: 30}, {Script: ok}}, refusals)
		add("limiter-wait-cancelled", []Spec{lw}, []ExeSpec{{Script: ok, Ctx: src, CancelAt: 30}, {Script: ok, StartAt: 5}}, refusals)
	}
	// a handle predicate that is legal but not pure (true on its 1st, 3rd, ... call): whatever it answers,
	// the fallback's OnFailure, the fallback function and OnFallbackExecuted go together
	{
		calls := 0
		impure := Cond{K: "if:alternating", F: func(int, error) bool { calls++; return calls%2 == 1 }}
		st := []Spec{{Kind: KFallback, FbV: 9, Handle: []Cond{impure}}}
		for _, sc := range [][]Out{{{Err: E1}}, {{V: 1}}} {
			out = append(out, &Scenario{
				Name:  fmt.Sprintf("C16/story/fallback-impure-predicate [%s] %s", stackStr(st), scriptStr(sc)),
				Bound: bound, Reduce: true,
				Body: multiBody(st, []ExeSpec{{Script: sc}, {Script: sc, StartAt: 10}}, MultiOpts{Reduce: true, Setup: func(*Env) { calls = 0 }, Final: func(env *Env) string {
					cnt := map[string]int{}
					for _, e := range env.Events {
						if e.Policy == 0 {
							cnt[e.Name]++
						}
					}
					if cnt["failure"] != cnt["fallback"] || cnt["failure"] != cnt["fbcall"] || cnt["failure"]+cnt["success"] != 2 {
						return fmt.Sprintf("fallback over two executions: OnFailure x%d OnSuccess x%d, fallback function x%d, OnFallbackExecuted x%d", cnt["failure"], cnt["success"], cnt["fbcall"], cnt["fallback"])
					}
					return ""
				}}),
			})
		}
	}
	// overlapping executions on one cache key: OnResultCached fires exactly for the stores
	add("cache-overlap", []Spec{{Kind: KCache, Key: "a"}}, []ExeSpec{{Script: []Out{{V: 1, Dur: 20}}}, {Script: []Out{{V: 2, Dur: 5}}, StartAt: 5}, {Script: []Out{{V: 3}}, StartAt: 40}}, func(env *Env) string {
		n := 0
		for _, e := range env.Events {
			if e.Policy == 0 && e.Name == "cached" {
				n++
			}
		}
		if sets := len(env.Caches[0].Sets); n != sets {
			return fmt.Sprintf("OnResultCached fired %d times, the cache was written %d times", n, sets)
		}
		return ""
	})
	add("bulkhead-wait-async-cancelled", []Spec{bw}, []ExeSpec{{Script: ok, Async: true, CancelAsync: true, CancelAt: 30}}, refusals)
	add("bulkhead-wait-timeout", []Spec{{Kind: KTimeout, Limit: 30}, bw}, []ExeSpec{{Script: ok}}, func(env *Env) string {
		n := 0
		for _, e := range env.Events {
			if e.Policy == 1 && e.Name == "full" {
				n++
			}
		}
		if n != 0 {
			return fmt.Sprintf("OnFull fired %d times for a wait that was ended by the enclosing timeout", n)
		}
		return ""
	})
	return out
}

func c16ConcurrentUnits(tier string) []Unit {
	var us []Unit
	for _, sc := range c16ConcurrentScenarios(tier) {
		us = append(us, scenarioUnit(sc))
	}
	return us
}

// c16AsyncScenarios: the async runner with a Cancel at every kind of instant (the C15 family): the
// executor's OnDone / OnSuccess / OnFailure fire once and report what the ExecutionResult holds.
func c16AsyncScenarios(tier string) []*Scenario {
	var out []*Scenario
	for _, sc := range c15Scenarios(tier) {
		if strings.Contains(sc.Name, "cancel") && !strings.HasPrefix(sc.Name, "C15/reuse") {
			c := *sc
			c.Name = "C16/async" + strings.TrimPrefix(sc.Name, "C15")
			out = append(out, &c)
		}
	}
	return out
}

// c16ListenerSubsetScenarios: which completion listeners fire does not depend on which of them are
// registered. Every subset of {OnDone, OnSuccess, OnFailure} on the executor x a stack x an outcome x
// sync / async: a registered listener fires exactly once when its situation occurred, never otherwise,
// and reports the returned result.
func c16ListenerSubsetScenarios(tier string) []*Scenario {
	var out []*Scenario
	type oc struct {
		name  string
		stack string
		outs  []Out
		succ  bool // the verdict of the policies (an outcome no policy classifies as a failure is a success, like everywhere in these checks)
	}
	cases := []oc{
		{"ok", "none", []Out{{V: 1}}, true}, {"fail", "none", []Out{{Err: E1}}, true},
		{"ok", "retry+breaker", []Out{{V: 1}}, true}, {"fail-then-ok", "retry+breaker", []Out{{Err: E1}, {V: 1}}, true}, {"fail", "retry+breaker", []Out{{Err: E1}, {Err: E1}}, false},
		{"fail-replaced", "fallback", []Out{{Err: E1}}, true}, {"ok", "fallback", []Out{{V: 1}}, true}, {"fail-unhandled", "fallback", []Out{{Err: E2}}, true},
	}
	for mask := 0; mask < 8; mask++ {
		for _, c := range cases {
			for _, async := range []bool{false, true} {
				mask, c, async := mask, c, async
				name := fmt.Sprintf("C16/listener-subset done=%v success=%v failure=%v stack=%s %s async=%v", mask&1 != 0, mask&2 != 0, mask&4 != 0, c.stack, c.name, async)
				out = append(out, &Scenario{Name: name, Bound: 0, Body: func() {
					var pols []failsafe.Policy[int]
					switch c.stack {
					case "retry+breaker":
						pols = []failsafe.Policy[int]{retrypolicy.Builder[int]().WithMaxRetries(1).Build(), circuitbreaker.Builder[int]().WithFailureThreshold(5).Build()}
					case "fallback":
						pols = []failsafe.Policy[int]{fallback.BuilderWithResult[int](9).HandleErrors(E1).Build()}
					}
					type seen struct {
						n   int
						v   int
						err error
					}
					var done, succ, fail seen
					rec := func(s *seen) func(failsafe.ExecutionDoneEvent[int]) {
						return func(e failsafe.ExecutionDoneEvent[int]) { s.n++; s.v, s.err = e.Result, e.Error }
					}
					ex := failsafe.NewExecutor[int](pols...)
					if mask&1 != 0 {
						ex = ex.OnDone(rec(&done))
					}
					if mask&2 != 0 {
						ex = ex.OnSuccess(rec(&succ))
					}
					if mask&4 != 0 {
						ex = ex.OnFailure(rec(&fail))
					}
					k := 0
					fn := func() (int, error) {
						o := c.outs[min(k, len(c.outs)-1)]
						k++
						return o.V, o.Err
					}
					var v int
					var err error
					if async {
						v, err = ex.GetAsync(fn).Get()
					} else {
						v, err = ex.Get(fn)
					}
					success := c.succ
					chk := func(what string, registered, occurred bool, s seen) bool {
						want := 0
						if registered && occurred {
							want = 1
						}
						if s.n != want {
							vrt.Fail(fmt.Sprintf("%s fired %d times, want %d (registered=%v, the execution returned (%d,%v))", what, s.n, want, registered, v, err))
							return false
						}
						if want == 1 && (s.v != v || s.err != err) {
							vrt.Fail(fmt.Sprintf("%s reported (%d,%v), the execution returned (%d,%v)", what, s.v, s.err, v, err))
							return false
						}
						return true
					}
					_ = chk("OnDone", mask&1 != 0, true, done) && chk("OnSuccess", mask&2 != 0, success, succ) && chk("OnFailure", mask&4 != 0, !success, fail)
					vrt.Mark(fmt.Sprint(done.n, succ.n, fail.n, v, err))
				}})
			}
		}
	}
	return out
}

// c17ListenerCancelScenarios: a cancellation that lands while a retry policy's OnRetry listener runs
// (the listener cancels the caller's context itself, or is slow under an enclosing Timeout): a retry
// that was counted is a retry that was started, so in the done event Attempts = function invocations
// (nothing rejects here), Retries = Attempts - 1 and Executions = invocations that returned.
func c17ListenerCancelScenarios(tier string) []*Scenario {
	var out []*Scenario
	for _, how := range []string{"listener-cancels-context", "slow-listener-under-timeout"} {
		for _, async := range []bool{false, true} {
			how, async := how, async
			out = append(out, &Scenario{Name: fmt.Sprintf("C17/retry-%s async=%v", how, async), Bound: 1, Body: func() {
				ctx, cancel := vcontext.WithCancel(context.Background())
				defer cancel()
				rb := retrypolicy.Builder[int]().WithMaxRetries(2)
				var pols []failsafe.Policy[int]
				if how == "listener-cancels-context" {
					rb = rb.OnRetry(func(failsafe.ExecutionEvent[int]) { cancel() })
				} else {
					rb = rb.OnRetry(func(failsafe.ExecutionEvent[int]) { vrt.Sleep(100) })
					pols = append(pols, timeout.With[int](50))
				}
				pols = append(pols, rb.Build())
				invoked, returned := 0, 0
				var att, exe, ret, nDone int
				ex := failsafe.NewExecutor[int](pols...).WithContext(ctx).OnDone(func(e failsafe.ExecutionDoneEvent[int]) {
					nDone++
					att, exe, ret = e.Attempts(), e.Executions(), e.Retries()
				})
				fn := func() (int, error) {
					invoked++
					vrt.Sleep(5)
					returned++
					return 0, E1
				}
				var err error
				if async {
					_, err = ex.GetAsync(fn).Get()
				} else {
					_, err = ex.Get(fn)
				}
				vrt.Sleep(300) // an attempt started around the cancellation finishes
				vrt.Mark(fmt.Sprint(att, exe, ret, invoked, err))
				if nDone != 1 {
					vrt.Fail(fmt.Sprintf("OnDone fired %d times", nDone))
					return
				}
				if att != invoked || ret != att-1 || exe > invoked {
					vrt.Fail(fmt.Sprintf("done event: Attempts=%d Retries=%d Executions=%d, the function was invoked %d times (returned %d times) and nothing was rejected", att, ret, exe, invoked, returned))
				}
			}})
		}
	}
	return out
}

// c16NestedMaxDurationPrograms: the C02 programs in which a retry policy with a max duration sits inside
// another retry policy (it reports OnRetriesExceeded once, then passes the outer policy's later attempts
// through), under the event contract.
func c16NestedMaxDurationPrograms(tier string) []*Program {
	var out []*Program
	for _, p := range c02Programs(tier) {
		if len(p.Stack) == 2 && p.Stack[0].Kind == KRetry && p.Stack[1].Kind == KRetry && p.Stack[1].MaxDuration != 0 {
			q := *p
			q.Checks = "layers,events"
			out = append(out, &q)
		}
	}
	return out
}

func init() {
	scenarioSets["C16"] = func(tier string) []*Scenario {
		scs := append(c16ConcurrentScenarios(tier), hedgeTimingScenarios("C16/hedge-timing", tier, "events")...)
		scs = append(scs, c16AsyncScenarios(tier)...)
		scs = append(scs, c16StoryScenarios(tier)...)
		scs = append(scs, c16ListenerSubsetScenarios(tier)...)
		scs = append(scs, programScenarios("C16", c16NestedMaxDurationPrograms(tier), 1)...)
		return append(scs, programScenarios("C16", pxPrograms(tier, "layers,events"), 1)...)
	}
}
