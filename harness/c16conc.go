package main

// C16, concurrent part: executions that share listeners; every execution's own events must tell its
// own story (events are attributed through a context value).

import (
	"fmt"
	"strings"
	"time"
)

func c16ConcurrentScenarios(tier string) []*Scenario {
	bound := 1
	if tier == "thorough" {
		bound = 2
	}
	var out []*Scenario
	add := func(name string, stack []Spec, exes []ExeSpec) {
		out = append(out, &Scenario{
			Name:  fmt.Sprintf("C16/shared-listeners/%s [%s] %s", name, stackStr(stack), exesStr(exes)),
			Bound: bound, Reduce: true,
			Body: multiBody(stack, exes, MultiOpts{Reduce: true, TagContext: true, Final: func(env *Env) string {
				for _, x := range env.Exes {
					cnt := map[string]int{}
					var doneEv *Event
					for i := range env.Events {
						e := &env.Events[i]
						if e.Exe != x.ID {
							continue
						}
						cnt[e.String()]++
						if e.Policy == -1 && e.Name == "done" {
							doneEv = e
						}
					}
					if cnt["done"] != 1 || cnt["success"]+cnt["failure"] != 1 {
						return fmt.Sprintf("execution %d: executor events done=%d success=%d failure=%d", x.ID, cnt["done"], cnt["success"], cnt["failure"])
					}
					if doneEv.V != x.ResV || doneEv.E != x.ResE {
						return fmt.Sprintf("execution %d: done event carries (%d,%v), the caller got (%d,%v)", x.ID, doneEv.V, doneEv.E, x.ResV, x.ResE)
					}
					if (cnt["success"] == 1) != (x.ResE == nil) && stack[0].Kind == KRetry && len(stack) == 1 {
						return fmt.Sprintf("execution %d: success event x%d but result error %v", x.ID, cnt["success"], x.ResE)
					}
					for i, s := range stack {
						if s.Kind != KRetry {
							continue
						}
						p := fmt.Sprintf("p%d.", i)
						n := len(x.Invs)
						refused := 0
						if n == 0 {
							continue
						}
						_ = refused
						if stack[len(stack)-1].Kind == KRetry {
							if cnt[p+"scheduled"] != n-1 || cnt[p+"retry"] != n-1 {
								return fmt.Sprintf("execution %d: %d invocations, OnRetryScheduled x%d OnRetry x%d", x.ID, n, cnt[p+"scheduled"], cnt[p+"retry"])
							}
							nf := 0
							for k := range x.Invs {
								o := x.Script[min(k, len(x.Script)-1)]
								if isFailure(s.Handle, o.V, o.Err) {
									nf++
								}
							}
							if cnt[p+"failure"] != nf || cnt[p+"success"] != n-nf {
								return fmt.Sprintf("execution %d: OnFailure x%d OnSuccess x%d for %d failures in %d invocations", x.ID, cnt[p+"failure"], cnt[p+"success"], nf, n)
							}
							if cnt[p+"exceeded"] > 1 || (cnt[p+"exceeded"] == 1) != (nf > s.MaxRetries) {
								return fmt.Sprintf("execution %d: OnRetriesExceeded x%d, result %v, %d failures, maxRetries %d", x.ID, cnt[p+"exceeded"], x.ResE, nf, s.MaxRetries)
							}
						}
					}
				}
				return ""
			}}),
		})
	}
	failing := []Out{{Err: E1}}
	failOnce := []Out{{Err: E1}, {V: 1}}
	r := Spec{Kind: KRetry, MaxRetries: 1}
	add("retry", []Spec{r}, []ExeSpec{{Script: failing}, {Script: failOnce}})
	add("retry-async", []Spec{r}, []ExeSpec{{Script: failing, Async: true}, {Script: failOnce}})
	add("retry-delay", []Spec{{Kind: KRetry, MaxRetries: 2, Delay: 10}}, []ExeSpec{{Script: failing}, {Script: []Out{{V: 1}}, StartAt: 5}})
	add("fallback(retry)", []Spec{{Kind: KFallback, FbV: 9}, r}, []ExeSpec{{Script: failing}, {Script: failOnce}})
	add("retry(breaker)", []Spec{r, {Kind: KBreaker, FT: 5, FC: 5, BDelay: time.Hour}}, []ExeSpec{{Script: failing}, {Script: failOnce}})
	return out
}

func c16ConcurrentUnits(tier string) []Unit {
	var us []Unit
	for _, sc := range c16ConcurrentScenarios(tier) {
		us = append(us, scenarioUnit(sc))
	}
	return us
}

// c16AsyncScenarios: the async runner with a Cancel at every kind of instant (the C15 family): the
// executor's OnDone / OnSuccess / OnFailure fire once and report what the ExecutionResult holds.
func c16AsyncScenarios(tier string) []*Scenario {
	var out []*Scenario
	for _, sc := range c15Scenarios(tier) {
		if strings.Contains(sc.Name, "cancel") && !strings.HasPrefix(sc.Name, "C15/reuse") {
			c := *sc
			c.Name = "C16/async" + strings.TrimPrefix(sc.Name, "C15")
			out = append(out, &c)
		}
	}
	return out
}

func init() {
	scenarioSets["C16"] = func(tier string) []*Scenario {
		scs := append(c16ConcurrentScenarios(tier), hedgeTimingScenarios("C16/hedge-timing", tier, "events")...)
		scs = append(scs, c16AsyncScenarios(tier)...)
		return append(scs, programScenarios("C16", pxPrograms(tier, "layers,events"), 1)...)
	}
}
