package main

// C12 — Failure classification follows the documented handle-condition rules (PX, full truth table).

import (
	"errors"
	"fmt"
	"strings"
	"time"

	"github.com/failsafe-go/failsafe-go"
	"github.com/failsafe-go/failsafe-go/circuitbreaker"
	"github.com/failsafe-go/failsafe-go/fallback"
	"github.com/failsafe-go/failsafe-go/hedgepolicy"
	"github.com/failsafe-go/failsafe-go/retrypolicy"
	"github.com/failsafe-go/failsafe-go/verifrt/vrt"
)

type wrapErr struct {
	msg string
	err error
}

func (w wrapErr) Error() string { return w.msg + ": " + w.err.Error() }
func (w wrapErr) Unwrap() error { return w.err }

type outcome struct {
	name string
	v    int
	err  error
}

func c12Outcomes() []outcome {
	errs := []struct {
		n string
		e error
	}{
		{"nil", nil}, {"E1", E1}, {"wrap(E1)", fmt.Errorf("ctx: %w", E1)}, {"join(E1,E2)", errors.Join(E1, E2)},
		{"ValErr", ValErr{1}}, {"&PtrErr", &PtrErr{1}}, {"wrap(ValErr)", wrapErr{"w", ValErr{2}}}, {"wrap(&PtrErr)", fmt.Errorf("w: %w", &PtrErr{2})},
		{"join(E2,&PtrErr)", errors.Join(E2, &PtrErr{3})}, {"wrap(join(E2,ValErr))", fmt.Errorf("outer: %w", errors.Join(E2, ValErr{4}))},
		{"join(wrap(join(E3,E1)))", errors.Join(fmt.Errorf("x: %w", errors.Join(E3, E1)))}, {"E2", E2}, {"E3", E3},
		{"wrap(wrap(E3))", fmt.Errorf("a: %w", fmt.Errorf("b: %w", E3))}, {"E4", E4}, {"OtherErr", OtherErr{}},
	}
	var out []outcome
	for _, v := range []int{0, 1} {
		for _, e := range errs {
			out = append(out, outcome{fmt.Sprintf("(%d,%s)", v, e.n), v, e.e})
		}
	}
	return out
}

// the four condition kinds, with fixed parameters
func c12Conds(kindSet []int, variant int) []Cond {
	var typeTarget any = ValErr{}
	switch variant % 3 {
	case 1:
		typeTarget = PtrErr{} // non-pointer target for an error implemented with pointer receivers
	case 2:
		typeTarget = &PtrErr{}
	}
	var moreErrs []error
	var moreTypes []any
	if variant >= 3 {
		// several errors / types in one call, the interesting one not last
		moreErrs, moreTypes = []error{E4}, []any{OtherErr{}}
	}
	all := []Cond{
		{K: "errs", E: E1, Es: moreErrs},
		{K: "types", T: typeTarget, Ts: moreTypes},
		{K: "result", V: 0},
		{K: "if:v1ok|E3", F: func(v int, err error) bool { return v == 1 && err == nil || errors.Is(err, E3) }},
	}
	var out []Cond
	for _, k := range kindSet {
		out = append(out, all[k])
	}
	return out
}

// every subset of the four kinds in every order
func orderedSubsets() [][]int {
	var out [][]int
	var rec func(cur []int, used int)
	rec = func(cur []int, used int) {
		out = append(out, append([]int{}, cur...))
		for k := 0; k < 4; k++ {
			if used&(1<<k) == 0 {
				rec(append(cur, k), used|1<<k)
			}
		}
	}
	rec(nil, 0)
	return out
}

// matchSet returns the possible verdicts of "some abort/cancel condition matches": result
// conditions on outcomes that carry an error are not pinned by the documentation.
func matchSet(cs []Cond, v int, err error) (must, may bool) {
	must = matchesAny(cs, v, err)
	may = must
	if err != nil {
		for _, c := range cs {
			if c.K == "result" && c.V == v {
				may = true
			}
		}
	}
	return
}

func c12Case(conds []Cond, o outcome) string {
	desc := func(policy string) string {
		return fmt.Sprintf("%s with conditions [%s] on outcome %s", policy, condStr(conds), o.name)
	}
	wantFail := isFailure(conds, o.v, o.err)
	fn := func() (int, error) { return o.v, o.err }
	// fallback: applied iff failure
	{
		b := fallback.BuilderWithResult[int](99)
		b = applyHandle(b, conds)
		v, err := failsafe.Get(fn, b.Build())
		applied := v == 99 && err == nil
		if applied != wantFail {
			return fmt.Sprintf("%s: fallback applied=%v, the documented rules classify it as failure=%v", desc("fallback"), applied, wantFail)
		}
		if !applied && (v != o.v || err != o.err) {
			return fmt.Sprintf("%s: unhandled outcome came back as (%d,%v)", desc("fallback"), v, err)
		}
	}
	// retry policy: retried iff failure
	{
		b := retrypolicy.Builder[int]().WithMaxRetries(1)
		b = applyHandle(b, conds)
		n := 0
		failsafe.Get(func() (int, error) { n++; return o.v, o.err }, b.Build())
		if (n == 2) != wantFail {
			return fmt.Sprintf("%s: function invoked %d times, failure=%v by the documented rules", desc("retry policy"), n, wantFail)
		}
	}
	// circuit breaker: through an execution and through RecordResult / RecordError
	{
		b := circuitbreaker.Builder[int]().WithFailureThreshold(10)
		b = applyHandle(b, conds)
		cb := b.Build()
		failsafe.Get(fn, cb)
		if got := cb.Metrics().Failures() == 1; got != wantFail {
			return fmt.Sprintf("%s: breaker recorded failure=%v after an execution, documented rules say %v", desc("circuit breaker"), got, wantFail)
		}
		cb2 := b.Build()
		if o.err == nil {
			cb2.RecordResult(o.v)
			if got := cb2.Metrics().Failures() == 1; got != isFailure(conds, o.v, nil) {
				return fmt.Sprintf("%s: RecordResult recorded failure=%v, documented rules say %v", desc("circuit breaker"), got, isFailure(conds, o.v, nil))
			}
		} else if o.v == 0 {
			cb2.RecordError(o.err)
			if got := cb2.Metrics().Failures() == 1; got != wantFail {
				return fmt.Sprintf("%s: RecordError recorded failure=%v, documented rules say %v", desc("circuit breaker"), got, wantFail)
			}
		}
	}
	// retry abort conditions: every outcome is made a failure, an abort match stops after one invocation
	{
		b := retrypolicy.Builder[int]().WithMaxRetries(2).HandleIf(func(int, error) bool { return true })
		for _, c := range conds {
			switch c.K {
			case "errs":
				b = b.AbortOnErrors(append([]error{c.E}, c.Es...)...)
			case "types":
				b = b.AbortOnErrorTypes(append([]any{c.T}, c.Ts...)...)
			case "result":
				b = b.AbortOnResult(c.V)
			default:
				b = b.AbortIf(c.F)
			}
		}
		n := 0
		failsafe.Get(func() (int, error) { n++; return o.v, o.err }, b.Build())
		must, may := matchSet(conds, o.v, o.err)
		aborted := n == 1
		if n != 1 && n != 3 || (aborted && !may) || (!aborted && must) {
			return fmt.Sprintf("%s: function invoked %d times; an abort condition matches=%v (none configured means never abort)", desc("retry policy abort"), n, must)
		}
	}
	// hedge cancel conditions: a matching first result is returned at once, otherwise the hedge runs
	{
		b := hedgepolicy.BuilderWithDelay[int](50 * time.Nanosecond)
		for _, c := range conds {
			switch c.K {
			case "errs":
				b = b.CancelOnErrors(append([]error{c.E}, c.Es...)...)
			case "types":
				b = b.CancelOnErrorTypes(append([]any{c.T}, c.Ts...)...)
			case "result":
				b = b.CancelOnResult(c.V)
			default:
				b = b.CancelIf(c.F)
			}
		}
		n := 0
		t0 := vrt.Elapsed()
		failsafe.Get(func() (int, error) {
			n++
			if n == 1 {
				return o.v, o.err
			}
			return 77, nil // never matches
		}, b.Build())
		took := vrt.Elapsed() - t0
		must, may := matchSet(conds, o.v, o.err)
		if len(conds) == 0 {
			must, may = true, true // none configured: cancel on any result
		}
		cancelled := took == 0
		if (cancelled && !may) || (!cancelled && must) {
			return fmt.Sprintf("%s: first result accepted at once=%v (took %d); a cancel condition matches=%v", desc("hedge cancel"), cancelled, took, must)
		}
	}
	return ""
}

func c12Units(tier string) []Unit {
	subsets := orderedSubsets()
	outs := c12Outcomes()
	var us []Unit
	for variant := 0; variant < 6; variant++ {
		variant := variant
		for i := 0; i < len(subsets); i += 5 {
			part := subsets[i:min(i+5, len(subsets))]
			us = append(us, Unit{Name: fmt.Sprintf("C12/type-target-variant %d, ordered condition subsets %d..%d", variant, i, i+len(part)-1), Run: func(dl time.Time) *Stats {
				st := &Stats{BoundCompleted: 0, outcomes: map[string]int{}}
				for _, ks := range part {
					conds := c12Conds(ks, variant)
					for _, o := range outs {
						o := o
						var msg string
						r := vrt.Execute(vrt.Options{}, func() { msg = c12Case(conds, o) })
						st.Executions++
						st.Steps += r.Steps
						st.Points += 5
						if r.Panic != "" {
							msg = "panic: " + r.Panic
						}
						if msg != "" {
							v := Violation{Scenario: "C12/" + condStr(conds), Message: msg}
							v.Sig = signature(v.Scenario, msg)
							st.Violations = append(st.Violations, v)
							if len(st.Violations) > 3 {
								return st
							}
						}
					}
					if st.Sample == nil {
						st.Sample = []string{"conditions [" + condStr(conds) + "] x outcomes " + strings.Join(outcomeNames(outs), " ")}
					}
				}
				st.Outcomes = st.Executions
				st.Nontrivial = st.Executions
				return st
			}})
		}
	}
	return us
}

func outcomeNames(os []outcome) []string {
	var s []string
	for _, o := range os {
		s = append(s, o.name)
	}
	return s
}

func init() {
	register(&CheckDef{
		Property:  "C12",
		Technique: "exhaustive enumeration of the condition/outcome truth table, each cell executed on the real policies (fallback, retry, breaker, hedge) under the virtual runtime and compared with the documented rules",
		Rule: "a case = an ordered subset of {HandleErrors, HandleErrorTypes, HandleResult, HandleIf} (all 65, three kinds of type target, single and multi-argument registrations) x an outcome from {0,1} x 16 error shapes (nil, sentinel, wrapped, joined, typed by value and by pointer, nested wrap/join, unrelated); " +
			"the same registrations are exercised as AbortOn* and CancelOn*; observed only through the public API; distinct = distinct cases",
		Assume: []string{"errors.Is / errors.As / reflect.DeepEqual are the reference matchers", "a result condition on an outcome that carries an error: HandleResult must not match (documented); AbortOnResult / CancelOnResult: either reading accepted (not documented)"},
		Units:  c12Units,
	})
}
