package main

// C12 — Failure classification follows the documented handle-condition rules (PX, full truth table).

import (
	"errors"
	"fmt"
	"strings"
	"time"

	"github.com/failsafe-go/failsafe-go"
	"github.com/failsafe-go/failsafe-go/circuitbreaker"
	"github.com/failsafe-go/failsafe-go/fallback"
	"github.com/failsafe-go/failsafe-go/hedgepolicy"
	"github.com/failsafe-go/failsafe-go/retrypolicy"
	"github.com/failsafe-go/failsafe-go/verifrt/vrt"
)

type wrapErr struct {
	msg string
	err error
}

func (w wrapErr) Error() string { return w.msg + ": " + w.err.Error() }
func (w wrapErr) Unwrap() error { return w.err }

// isE1Err matches E1 through an Is method only.
type isE1Err struct{}

func (isE1Err) Error() string        { return "isE1Err" }
func (isE1Err) Is(target error) bool { return target == E1 }

type outcome struct {
	name string
	v    int
	err  error
}

func c12Outcomes() []outcome {
	errs := []struct {
		n string
		e error
	}{
		{"nil", nil}, {"E1", E1}, {"wrap(E1)", fmt.Errorf("ctx: %w", E1)}, {"join(E1,E2)", errors.Join(E1, E2)},
		{"ValErr", ValErr{1}}, {"&PtrErr", &PtrErr{1}}, {"wrap(ValErr)", wrapErr{"w", ValErr{2}}}, {"wrap(&PtrErr)", fmt.Errorf("w: %w", &PtrErr{2})},
		{"join(E2,&PtrErr)", errors.Join(E2, &PtrErr{3})}, {"wrap(join(E2,ValErr))", fmt.Errorf("outer: %w", errors.Join(E2, ValErr{4}))},
		{"join(wrap(join(E3,E1)))", errors.Join(fmt.Errorf("x: %w", errors.Join(E3, E1)))}, {"E2", E2}, {"E3", E3},
		{"wrap(wrap(E3))", fmt.Errorf("a: %w", fmt.Errorf("b: %w", E3))}, {"E4", E4}, {"OtherErr", OtherErr{}},
		// an error that is E1 only by its own Is method (like *PathError for fs.ErrNotExist): bare, wrapped, joined
		{"IsE1", isE1Err{}}, {"wrap(IsE1)", fmt.Errorf("w: %w", isE1Err{})}, {"wrap(join(E2,wrap(IsE1)))", fmt.Errorf("o: %w", errors.Join(E2, wrapErr{"i", isE1Err{}}))},
	}
	var out []outcome
	for _, v := range []int{0, 1} {
		for _, e := range errs {
			out = append(out, outcome{fmt.Sprintf("(%d,%s)", v, e.n), v, e.e})
		}
	}
	return out
}

// the four condition kinds, with fixed parameters
func c12Conds(kindSet []int, variant int) []Cond {
	var typeTarget any = ValErr{}
	switch variant % 4 {
	case 1:
		typeTarget = PtrErr{} // non-pointer target for an error implemented with pointer receivers
	case 2:
		typeTarget = &PtrErr{}
	case 3:
		typeTarget = &ValErr{} // errors.As style pointer to a type implemented with value receivers
	}
	var moreErrs []error
	var moreTypes []any
	if variant >= 4 {
		// several errors / types in one call, the interesting one not last
		moreErrs, moreTypes = []error{E4}, []any{OtherErr{}}
	}
	all := []Cond{
		{K: "errs", E: E1, Es: moreErrs},
		{K: "types", T: typeTarget, Ts: moreTypes},
		{K: "result", V: 0},
		{K: "if:v1ok|E3", F: func(v int, err error) bool { return v == 1 && err == nil || errors.Is(err, E3) }},
	}
	if variant >= 8 {
		// the first registered error wraps the second (a later, more general target must still count)
		all[0] = Cond{K: "errs", E: fmt.Errorf("dial: %w", E1), Es: []error{E1}}
		all[1] = Cond{K: "types", T: typeTarget}
	}
	var out []Cond
	for _, k := range kindSet {
		out = append(out, all[k])
	}
	return out
}

// every subset of the four kinds in every order
func orderedSubsets() [][]int {
	var out [][]int
	var rec func(cur []int, used int)
	rec = func(cur []int, used int) {
		out = append(out, append([]int{}, cur...))
		for k := 0; k < 4; k++ {
			if used&(1<<k) == 0 {
				rec(append(cur, k), used|1<<k)
			}
		}
	}
	rec(nil, 0)
	return out
}

// matchSet returns the possible verdicts of "some abort/cancel condition matches": result
// conditions on outcomes that carry an error are not pinned by the documentation.
func matchSet(cs []Cond, v int, err error) (must, may bool) {
	must = matchesAny(cs, v, err)
	may = must
	if err != nil {
		for _, c := range cs {
			if c.K == "result" && c.V == v {
				may = true
			}
		}
	}
	return
}

// c12Pols holds one instance of every policy kind configured with the same conditions.
type c12Pols struct {
	conds []Cond
	fb    fallback.Fallback[int]
	rp    retrypolicy.RetryPolicy[int]
	cbB   circuitbreaker.CircuitBreakerBuilder[int]
	cb    circuitbreaker.CircuitBreaker[int]
	abort retrypolicy.RetryPolicy[int]
	hedge hedgepolicy.HedgePolicy[int]
}

func c12Build(conds []Cond) *c12Pols {
	p := &c12Pols{conds: conds}
	p.fb = applyHandle(fallback.BuilderWithResult[int](99), conds).Build()
	p.rp = applyHandle(retrypolicy.Builder[int]().WithMaxRetries(1), conds).Build()
	p.cbB = applyHandle(circuitbreaker.Builder[int]().WithFailureThreshold(100), conds)
	p.cb = p.cbB.Build()
	ab := retrypolicy.Builder[int]().WithMaxRetries(2).HandleIf(func(int, error) bool { return true })
	hb := hedgepolicy.BuilderWithDelay[int](50 * time.Nanosecond)
	for _, c := range conds {
		switch c.K {
		case "errs0":
			ab = ab.AbortOnErrors()
			hb = hb.CancelOnErrors()
		case "errs":
			{
				sc := regErrs(c)
				ab = ab.AbortOnErrors(sc...)
				scribble(sc)
			}
			{
				sc := regErrs(c)
				hb = hb.CancelOnErrors(sc...)
				scribble(sc)
			}
		case "types":
			{
				sc := regTypes(c)
				ab = ab.AbortOnErrorTypes(sc...)
				scribble(sc)
			}
			{
				sc := regTypes(c)
				hb = hb.CancelOnErrorTypes(sc...)
				scribble(sc)
			}
		case "result":
			ab = ab.AbortOnResult(c.V)
			hb = hb.CancelOnResult(c.V)
		default:
			ab = ab.AbortIf(c.F)
			hb = hb.CancelIf(c.F)
		}
	}
	p.abort, p.hedge = ab.Build(), hb.Build()
	return p
}

// c12Case classifies one outcome with freshly built policies.
func c12Case(conds []Cond, o outcome) string { return c12Build(conds).check(o) }

// check runs outcome o through every policy of p (which may have classified other outcomes before)
// and compares each verdict with the documented rules.
func (p *c12Pols) check(o outcome) string {
	conds := p.conds
	desc := func(policy string) string {
		return fmt.Sprintf("%s with conditions [%s] on outcome %s", policy, condStr(conds), o.name)
	}
	wantFail := isFailure(conds, o.v, o.err)
	fn := func() (int, error) { return o.v, o.err }
	// fallback: applied iff failure
	{
		v, err := failsafe.Get(fn, p.fb)
		applied := v == 99 && err == nil
		if applied != wantFail {
			return fmt.Sprintf("%s: fallback applied=%v, the documented rules classify it as failure=%v", desc("fallback"), applied, wantFail)
		}
		if !applied && (v != o.v || err != o.err) {
			return fmt.Sprintf("%s: unhandled outcome came back as (%d,%v)", desc("fallback"), v, err)
		}
	}
	// retry policy: retried iff failure
	{
		n := 0
		failsafe.Get(func() (int, error) { n++; return o.v, o.err }, p.rp)
		if (n == 2) != wantFail {
			return fmt.Sprintf("%s: function invoked %d times, failure=%v by the documented rules", desc("retry policy"), n, wantFail)
		}
	}
	// circuit breaker: through an execution and through RecordResult / RecordError
	{
		before := p.cb.Metrics().Failures()
		failsafe.Get(fn, p.cb)
		if got := p.cb.Metrics().Failures() == before+1; got != wantFail {
			return fmt.Sprintf("%s: breaker recorded failure=%v after an execution, documented rules say %v", desc("circuit breaker"), got, wantFail)
		}
		before = p.cb.Metrics().Failures()
		if o.err == nil {
			p.cb.RecordResult(o.v)
			if got := p.cb.Metrics().Failures() == before+1; got != isFailure(conds, o.v, nil) {
				return fmt.Sprintf("%s: RecordResult recorded failure=%v, documented rules say %v", desc("circuit breaker"), got, isFailure(conds, o.v, nil))
			}
		} else if o.v == 0 {
			p.cb.RecordError(o.err)
			if got := p.cb.Metrics().Failures() == before+1; got != wantFail {
				return fmt.Sprintf("%s: RecordError recorded failure=%v, documented rules say %v", desc("circuit breaker"), got, wantFail)
			}
		}
	}
	// retry abort conditions: every outcome is made a failure, an abort match stops after one invocation
	{
		n := 0
		failsafe.Get(func() (int, error) { n++; return o.v, o.err }, p.abort)
		must, may := matchSet(conds, o.v, o.err)
		aborted := n == 1
		if n != 1 && n != 3 || (aborted && !may) || (!aborted && must) {
			return fmt.Sprintf("%s: function invoked %d times; an abort condition matches=%v (none configured means never abort)", desc("retry policy abort"), n, must)
		}
	}
	// hedge cancel conditions: a matching first result is returned at once, otherwise the hedge runs
	{
		n := 0
		t0 := vrt.Elapsed()
		failsafe.Get(func() (int, error) {
			n++
			if n == 1 {
				return o.v, o.err
			}
			return 77, nil // never matches
		}, p.hedge)
		took := vrt.Elapsed() - t0
		must, may := matchSet(conds, o.v, o.err)
		if len(conds) == 0 || (len(conds) == 1 && conds[0].K == "errs0") {
			must, may = true, true // none configured: cancel on any result
		}
		cancelled := took == 0
		if (cancelled && !may) || (!cancelled && must) {
			return fmt.Sprintf("%s: first result accepted at once=%v (took %d); a cancel condition matches=%v", desc("hedge cancel"), cancelled, took, must)
		}
	}
	return ""
}

// c12History: the verdict on an outcome does not depend on what the same policy instances classified
// before. For every ordered pair (first, second) the second outcome is classified by instances that
// have already seen the first.
func c12History(conds []Cond, first outcome, outs []outcome) string {
	for _, second := range outs {
		p := c12Build(conds)
		if msg := p.check(first); msg != "" {
			return msg
		}
		if msg := p.check(second); msg != "" {
			return fmt.Sprintf("%s (the same policy instances had classified %s before)", msg, first.name)
		}
		if msg := p.check(first); msg != "" {
			return fmt.Sprintf("%s (the same policy instances had classified %s and %s before)", msg, first.name, second.name)
		}
	}
	return ""
}

// ---- deep equality on results that hold pointers ----

type c12Box struct{ N int }
type c12Holder struct {
	P *int
	S string
}

// c12Deep registers mk(0) as the result condition and runs freshly allocated mk(0) (deep-equal, never
// identical) and mk(1) through every policy kind.
func c12Deep[R any](typeName string, mk func(int) R) []string {
	var msgs []string
	for _, v := range []int{0, 1} {
		want := v == 0
		desc := fmt.Sprintf("result type %s, condition registered for a value deep-equal to the result=%v", typeName, want)
		fn := func() (R, error) { return mk(v), nil }
		{
			n := 0
			failsafe.Get(func() (R, error) { n++; return mk(v), nil }, retrypolicy.Builder[R]().WithMaxRetries(1).HandleResult(mk(0)).Build())
			if (n == 2) != want {
				msgs = append(msgs, fmt.Sprintf("retry policy HandleResult, %s: function invoked %d times", desc, n))
			}
		}
		{
			cb := circuitbreaker.Builder[R]().WithFailureThreshold(10).HandleResult(mk(0)).Build()
			failsafe.Get(fn, cb)
			cb.RecordResult(mk(v))
			if got := cb.Metrics().Failures(); (got == 2) != want || (got != 0 && got != 2) {
				msgs = append(msgs, fmt.Sprintf("circuit breaker HandleResult, %s: %d failures recorded after an execution and a RecordResult", desc, got))
			}
		}
		{
			applied := false
			fb := fallback.BuilderWithFunc(func(failsafe.Execution[R]) (R, error) { applied = true; return mk(7), nil }).HandleResult(mk(0)).Build()
			failsafe.Get(fn, fb)
			if applied != want {
				msgs = append(msgs, fmt.Sprintf("fallback HandleResult, %s: fallback applied=%v", desc, applied))
			}
		}
		{
			n := 0
			rp := retrypolicy.Builder[R]().WithMaxRetries(2).HandleIf(func(R, error) bool { return true }).AbortOnResult(mk(0)).Build()
			failsafe.Get(func() (R, error) { n++; return mk(v), nil }, rp)
			if (n == 1) != want || (n != 1 && n != 3) {
				msgs = append(msgs, fmt.Sprintf("retry policy AbortOnResult, %s: function invoked %d times", desc, n))
			}
		}
		{
			n := 0
			t0 := vrt.Elapsed()
			hp := hedgepolicy.BuilderWithDelay[R](50 * time.Nanosecond).CancelOnResult(mk(0)).Build()
			failsafe.Get(func() (R, error) {
				n++
				if n == 1 {
					return mk(v), nil
				}
				return mk(5), nil
			}, hp)
			if cancelled := vrt.Elapsed() == t0; cancelled != want {
				msgs = append(msgs, fmt.Sprintf("hedge CancelOnResult, %s: first result accepted at once=%v", desc, cancelled))
			}
		}
	}
	return msgs
}

func c12DeepCases() []struct {
	name string
	run  func() []string
} {
	type tc = struct {
		name string
		run  func() []string
	}
	return []tc{
		{"*struct", func() []string { return c12Deep("*c12Box", func(v int) *c12Box { return &c12Box{v} }) }},
		{"struct holding a pointer", func() []string {
			return c12Deep("c12Holder", func(v int) c12Holder { x := v; return c12Holder{&x, "s"} })
		}},
		{"any holding a pointer", func() []string { return c12Deep("any(*c12Box)", func(v int) any { return &c12Box{v} }) }},
		{"array of pointers", func() []string {
			return c12Deep("[2]*int", func(v int) [2]*int { a, b := v, 9; return [2]*int{&a, &b} })
		}},
		{"slice", func() []string { return c12Deep("[]int", func(v int) []int { return []int{v, 2} }) }},
		{"map", func() []string {
			return c12Deep("map[string]int", func(v int) map[string]int { return map[string]int{"k": v} })
		}},
		{"string", func() []string { return c12Deep("string", func(v int) string { return fmt.Sprint("s", v) }) }},
		{"struct of scalars", func() []string { return c12Deep("c12Box", func(v int) c12Box { return c12Box{v} }) }},
	}
}

func c12Units(tier string) []Unit {
	subsets := orderedSubsets()
	outs := c12Outcomes()
	var us []Unit
	for variant := 0; variant < 9; variant++ {
		variant := variant
		for i := 0; i < len(subsets); i += 5 {
			part := subsets[i:min(i+5, len(subsets))]
			us = append(us, Unit{Name: fmt.Sprintf("C12/type-target-variant %d, ordered condition subsets %d..%d", variant, i, i+len(part)-1), Run: func(dl time.Time) *Stats {
				st := &Stats{BoundCompleted: 0, outcomes: map[string]int{}}
				for _, ks := range part {
					conds := c12Conds(ks, variant)
					for _, o := range outs {
						o := o
						var msg string
						r := vrt.Execute(vrt.Options{}, func() { msg = c12Case(conds, o) })
						st.Executions++
						st.Steps += r.Steps
						st.Points += 5
						if r.Panic != "" {
							msg = "panic: " + r.Panic
						}
						if msg != "" {
							v := Violation{Scenario: "C12/" + condStr(conds), Message: msg}
							v.Sig = signature(v.Scenario, msg)
							st.Violations = append(st.Violations, v)
							if len(st.Violations) > 3 {
								return st
							}
						}
					}
					if st.Sample == nil {
						st.Sample = []string{"conditions [" + condStr(conds) + "] x outcomes " + strings.Join(outcomeNames(outs), " ")}
					}
				}
				st.Outcomes = st.Executions
				st.Nontrivial = st.Executions
				return st
			}})
		}
	}
	// histories: 18 outcomes (every error shape with result 0, plus the two error-free ones)
	var hist []outcome
	for _, o := range outs {
		if o.v == 0 || o.err == nil {
			hist = append(hist, o)
		}
	}
	runCases := func(name string, n int, sample string, run func(i int) (string, string)) Unit {
		return Unit{Name: name, Run: func(dl time.Time) *Stats {
			st := &Stats{BoundCompleted: 0, outcomes: map[string]int{}}
			for i := 0; i < n; i++ {
				var scen, msg string
				r := vrt.Execute(vrt.Options{}, func() { scen, msg = run(i) })
				st.Executions++
				st.Steps += r.Steps
				if r.Panic != "" {
					msg = "panic: " + r.Panic
				}
				if msg != "" {
					v := Violation{Scenario: scen, Message: msg}
					v.Sig = signature(v.Scenario, msg)
					st.Violations = append(st.Violations, v)
					if len(st.Violations) > 3 {
						return st
					}
				}
			}
			st.Sample = []string{sample}
			st.Outcomes, st.Nontrivial = st.Executions, st.Executions
			return st
		}}
	}
	for variant := 0; variant < 4; variant++ {
		variant := variant
		for i := 0; i < len(subsets); i += 5 {
			part := subsets[i:min(i+5, len(subsets))]
			us = append(us, runCases(fmt.Sprintf("C12/history, type-target-variant %d, ordered condition subsets %d..%d", variant, i, i+len(part)-1), len(part)*len(hist),
				"first outcome x every second outcome on the same instances: "+strings.Join(outcomeNames(hist), " "), func(k int) (string, string) {
					conds := c12Conds(part[k/len(hist)], variant)
					return "C12/history/" + condStr(conds), c12History(conds, hist[k%len(hist)], hist)
				}))
		}
	}
	us = append(us, runCases("C12/registration calls with an empty list", len(outs), "HandleErrors() alone x every outcome", func(k int) (string, string) {
		return "C12/errs()", c12Case([]Cond{{K: "errs0"}}, outs[k])
	}))
	deep := c12DeepCases()
	us = append(us, runCases("C12/deep equality of results holding pointers", len(deep), "result types: *struct, struct holding a pointer, any holding a pointer, array of pointers, slice, map, string, struct of scalars",
		func(k int) (string, string) { return "C12/deep/" + deep[k].name, strings.Join(deep[k].run(), "; ") }))
	return us
}

func outcomeNames(os []outcome) []string {
	var s []string
	for _, o := range os {
		s = append(s, o.name)
	}
	return s
}

func init() {
	register(&CheckDef{
		Property:  "C12",
		Technique: "exhaustive enumeration of the condition/outcome truth table, each cell executed on the real policies (fallback, retry, breaker, hedge) under the virtual runtime and compared with the documented rules",
		Rule: "a case = an ordered subset of {HandleErrors, HandleErrorTypes, HandleResult, HandleIf} (all 65, four kinds of type target, single and multi-argument registrations) x an outcome from {0,1} x 19 error shapes (nil, sentinel, wrapped, joined, typed by value and by pointer, nested wrap/join, matching only through an Is method at three depths, unrelated); " +
			"the same registrations are exercised as AbortOn* and CancelOn*; histories: every ordered pair of 18 outcomes classified one after the other by the same policy instances (65 subsets x 4 type targets); result conditions on eight result types (pointers, structs/arrays/interfaces holding pointers, slices, maps) with deep-equal but not identical values; observed only through the public API; distinct = distinct cases",
		Assume: []string{"errors.Is / errors.As / reflect.DeepEqual are the reference matchers", "a result condition on an outcome that carries an error: HandleResult must not match (documented); AbortOnResult / CancelOnResult: either reading accepted (not documented)"},
		Units:  c12Units,
	})
}
