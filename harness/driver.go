package main

// Check driver: units of work are distributed over worker processes; the parent aggregates the
// statistics into the evidence file and decides the exit code.

import (
	"bufio"
	"encoding/json"
	"fmt"
	"os"
	"os/exec"
	"path/filepath"
	"runtime"
	"sort"
	"strconv"
	"strings"
	"sync"
	"sync/atomic"
	"time"
)

// Unit is one independently explorable piece of a check.
type Unit struct {
	Name string
	Run  func(deadline time.Time) *Stats
}

func scenarioUnit(sc *Scenario) Unit {
	return Unit{Name: sc.Name, Run: func(dl time.Time) *Stats { return Explore(sc, dl, false) }}
}

type CheckDef struct {
	Property  string
	Technique string
	Rule      string
	Assume    []string
	Units     func(tier string) []Unit
	// Post runs once in the parent after the units; it returns extra coverage entries and an
	// infrastructure error message ("" if none)
	Post   func() (map[string]any, string)
	Race   bool                     // needs the race build
	Budget map[string]time.Duration // wall budget per tier
}

var checks = map[string]*CheckDef{}

var scenarioSets = map[string]func(tier string) []*Scenario{}

func scenariosOf(prop, tier string) []*Scenario {
	if f := scenarioSets[prop]; f != nil {
		return f(tier)
	}
	return nil
}

func register(c *CheckDef) { checks[c.Property] = c }

// outDir is where evidence and replays go: /verif, or VERIF_OUT when the checks are pointed at a
// scratch tree (seeded/matrix.py), so that such runs do not overwrite the evidence of the real tree.
func outDir() string {
	if d := os.Getenv("VERIF_OUT"); d != "" {
		return d
	}
	return verifDir()
}

func verifDir() string {
	if d := os.Getenv("VERIF_DIR"); d != "" {
		return d
	}
	return "/verif"
}

type knownFinding struct {
	Property         string   `json:"property"`
	ScenarioContains []string `json:"scenario_contains"`
	MessageContains  []string `json:"message_contains"`
	What             string   `json:"what"`
}

func (k knownFinding) matches(prop string, v Violation) bool {
	if k.Property != prop || len(k.ScenarioContains)+len(k.MessageContains) == 0 {
		return false
	}
	for _, s := range k.ScenarioContains {
		if !strings.Contains(v.Scenario, s) {
			return false
		}
	}
	for _, s := range k.MessageContains {
		if !strings.Contains(v.Message, s) {
			return false
		}
	}
	return true
}

func loadKnown() []knownFinding {
	var out struct {
		Findings []knownFinding `json:"findings"`
	}
	b, err := os.ReadFile(filepath.Join(verifDir(), "known_findings.json"))
	if err != nil {
		return nil
	}
	if err := json.Unmarshal(b, &out); err != nil {
		fmt.Fprintln(os.Stderr, "known_findings.json:", err)
		os.Exit(2)
	}
	return out.Findings
}

func workerMain(prop, tier string) {
	c := checks[prop]
	if c == nil {
		fmt.Fprintln(os.Stderr, "unknown property", prop)
		os.Exit(2)
	}
	units := c.Units(tier)
	in := bufio.NewScanner(os.Stdin)
	out := bufio.NewWriter(os.Stdout)
	for in.Scan() {
		parts := strings.Fields(in.Text())
		idx, _ := strconv.Atoi(parts[0])
		dlUnix, _ := strconv.ParseInt(parts[1], 10, 64)
		st := units[idx].Run(time.Unix(0, dlUnix))
		st.Scenario = units[idx].Name
		b, _ := json.Marshal(st)
		out.Write(b)
		out.WriteByte('\n')
		out.Flush()
	}
}

func runCheck(prop, tier string) int {
	c := checks[prop]
	if c == nil {
		fmt.Fprintln(os.Stderr, "unknown property", prop)
		return 2
	}
	start := time.Now()
	if !runLitmus(false) {
		fmt.Println("INFRA: engine litmus tests failed")
		return 2
	}
	units := c.Units(tier)
	budget := c.Budget[tier]
	if budget == 0 {
		budget = map[string]time.Duration{"quick": 60 * time.Second, "thorough": 12 * time.Minute}[tier]
	}
	if s := os.Getenv("VERIF_BUDGET_S"); s != "" {
		if n, err := strconv.Atoi(s); err == nil {
			budget = time.Duration(n) * time.Second
		}
	}
	deadline := start.Add(budget)
	seed, _ := strconv.Atoi(os.Getenv("VERIF_SEED"))
	order := make([]int, len(units))
	for i := range order {
		order[i] = i
	}
	if seed != 0 { // the seed only permutes the order in which units are handed out
		r := uint64(seed)*6364136223846793005 + 1442695040888963407
		for i := len(order) - 1; i > 0; i-- {
			r = r*6364136223846793005 + 1442695040888963407
			j := int((r >> 33) % uint64(i+1))
			order[i], order[j] = order[j], order[i]
		}
	}
	nw := runtime.NumCPU()
	if s := os.Getenv("VERIF_WORKERS"); s != "" {
		nw, _ = strconv.Atoi(s)
	}
	if nw > len(units) {
		nw = len(units)
	}
	jobs := make(chan int, len(units))
	doneCh := make(chan struct{}, len(units))
	var remaining atomic.Int64
	results := make([]*Stats, len(units))
	var mu sync.Mutex
	infra := ""
	var wg sync.WaitGroup
	self, _ := os.Executable()
	for w := 0; w < nw; w++ {
		wg.Add(1)
		go func(w int) {
			defer wg.Done()
			cmd := exec.Command(self, "worker", prop, tier)
			cmd.Env = append(os.Environ(), "GOMAXPROCS=1", "GOMEMLIMIT=3GiB")
			if c.Race {
				cmd.Env = append(cmd.Env, fmt.Sprintf("GORACE=log_path=%s/race-%d-%d halt_on_error=0 exitcode=0", os.TempDir(), os.Getpid(), w))
			}
			cmd.Stderr = os.Stderr
			stdin, _ := cmd.StdinPipe()
			stdout, _ := cmd.StdoutPipe()
			if err := cmd.Start(); err != nil {
				mu.Lock()
				infra = err.Error()
				mu.Unlock()
				return
			}
			rd := bufio.NewReaderSize(stdout, 1<<20)
			dead := false
			for idx := range jobs {
				if dead {
					doneCh <- struct{}{}
					continue
				}
				// thorough tier: every unit gets a fair share of what is left of the budget (remaining time x
				// workers / remaining units), so that a run that cannot finish still covers every unit to some
				// depth instead of spending the whole budget on the first few; what a unit does not use goes
				// to the later ones
				dl := deadline
				left := int(remaining.Add(-1)) + 1
				if tier == "thorough" && left > 0 {
					if share := time.Until(deadline) * time.Duration(nw) / time.Duration(left); share > 0 && time.Now().Add(share).Before(deadline) {
						dl = time.Now().Add(share)
					}
				}
				fmt.Fprintf(stdin, "%d %d\n", idx, dl.UnixNano())
				line, err := rd.ReadBytes('\n')
				if err != nil {
					mu.Lock()
					infra = fmt.Sprintf("worker died on unit %s: %v", units[idx].Name, err)
					mu.Unlock()
					dead = true
					doneCh <- struct{}{}
					continue
				}
				st := &Stats{}
				if err := json.Unmarshal(line, st); err != nil {
					mu.Lock()
					infra = "bad worker output: " + err.Error()
					mu.Unlock()
					dead = true
					doneCh <- struct{}{}
					continue
				}
				mu.Lock()
				results[idx] = st
				mu.Unlock()
				doneCh <- struct{}{}
			}
			stdin.Close()
			cmd.Wait()
			if c.Race {
				files, _ := filepath.Glob(fmt.Sprintf("%s/race-%d-%d.*", os.TempDir(), os.Getpid(), w))
				for _, f := range files {
					os.Remove(f)
				}
			}
		}(w)
	}
	// rounds: units that used up their share without finishing are run again (from scratch, with the
	// larger share the finished ones left behind) as long as budget remains
	pending := order
	rounds := 0
	for {
		rounds++
		remaining.Store(int64(len(pending)))
		for _, i := range pending {
			jobs <- i
		}
		for range pending {
			<-doneCh
		}
		var next []int
		mu.Lock()
		for _, i := range pending {
			if st := results[i]; st != nil && st.Capped && len(st.Violations) == 0 {
				next = append(next, i)
			}
		}
		failed := infra != ""
		mu.Unlock()
		if tier != "thorough" || failed || len(next) == 0 || time.Until(deadline) < 15*time.Second || rounds >= 6 {
			break
		}
		pending = next
	}
	close(jobs)
	wg.Wait()
	if infra != "" {
		fmt.Println("INFRA:", infra)
		return 2
	}
	var extra map[string]any
	if c.Post != nil {
		var msg string
		extra, msg = c.Post()
		if msg != "" {
			fmt.Println("INFRA:", msg)
			return 2
		}
	}
	// a Post hook may report violations of its own (C18: the property failing on the real transport)
	if vs, ok := extra["violations"].([]string); ok && len(vs) > 0 {
		st := &Stats{BoundCompleted: 0, outcomes: map[string]int{}}
		for _, m := range vs {
			v := Violation{Scenario: c.Property + "/post-check on the uninstrumented library", Message: m}
			v.Sig = signature(v.Scenario, m)
			st.Violations = append(st.Violations, v)
		}
		delete(extra, "violations")
		units = append(units, Unit{Name: c.Property + "/post-check on the uninstrumented library"})
		results = append(results, st)
	}
	return report(c, tier, seed, units, results, time.Since(start), extra)
}

func report(c *CheckDef, tier string, seed int, units []Unit, results []*Stats, wall time.Duration, extra map[string]any) int {
	known := loadKnown()
	type unitSummary struct {
		Name       string `json:"name"`
		Executions int    `json:"executions"`
		Outcomes   int    `json:"distinct_outcomes"`
		Bound      int    `json:"bound_completed"`
		Asked      int    `json:"bound_asked"`
		Capped     bool   `json:"capped,omitempty"`
	}
	var sums []unitSummary
	tot := Stats{}
	exhaustive := true
	minBound := -2
	var samples []any
	exit := 0
	var viols []Violation
	var knownHit []string
	knownSeen := map[string]bool{}
	infra := false
	for i, st := range results {
		if st == nil {
			exhaustive = false
			continue
		}
		tot.Executions += st.Executions
		tot.Points += st.Points
		tot.Steps += st.Steps
		tot.Outcomes += st.Outcomes
		tot.Nontrivial += st.Nontrivial
		tot.HorizonHits += st.HorizonHits
		if st.MaxThreads > tot.MaxThreads {
			tot.MaxThreads = st.MaxThreads
		}
		if st.Capped {
			exhaustive = false
		}
		if minBound == -2 || st.BoundCompleted < minBound {
			minBound = st.BoundCompleted
		}
		sums = append(sums, unitSummary{units[i].Name, st.Executions, st.Outcomes, st.BoundCompleted, st.BoundAsked, st.Capped})
		if len(samples) < 4 && len(st.Sample) > 0 {
			samples = append(samples, map[string]any{"unit": units[i].Name, "schedule": st.SampleSchedule, "observations": st.Sample})
		}
		for _, v := range st.Violations {
			if strings.HasPrefix(v.Message, "INFRA") {
				infra = true
				fmt.Printf("INFRA: %s: %s\n", v.Scenario, v.Message)
				continue
			}
			isKnown := false
			for _, k := range known {
				if k.matches(c.Property, v) {
					isKnown = true
					if !knownSeen[k.What] {
						knownSeen[k.What] = true
						knownHit = append(knownHit, k.What)
						fmt.Printf("KNOWN-FINDING: property=%s %s\n", c.Property, k.What)
					}
					break
				}
			}
			if !isKnown {
				viols = append(viols, v)
			}
		}
	}
	sort.Slice(viols, func(i, j int) bool { return len(viols[i].Choices) < len(viols[j].Choices) })
	seenSig := map[string]bool{}
	perShape := map[string]int{}
	printed, suppressed := 0, 0
	for _, v := range viols {
		if seenSig[v.Sig] {
			continue
		}
		seenSig[v.Sig] = true
		exit = 1
		// at most three replays per message shape and 25 in all: the rest are the same failure on other inputs
		shape := signature("", v.Message)
		if perShape[shape] >= 3 || printed >= 25 {
			suppressed++
			continue
		}
		perShape[shape]++
		printed++
		p := writeReplay(filepath.Join(outDir(), "replays"), c.Property, v)
		fmt.Printf("VIOLATION property=%s replay=%s\n", c.Property, p)
		first := v.Message
		if i := strings.IndexByte(first, '\n'); i >= 0 {
			first = first[:i]
		}
		fmt.Printf("  scenario: %s\n  %s\n", v.Scenario, first)
		exit = 1
	}
	if suppressed > 0 {
		fmt.Printf("  ... and %d more violating scenarios with the same message shapes (not listed)\n", suppressed)
	}
	if len(samples) == 0 {
		samples = append(samples, "no execution produced observations")
	}
	ev := map[string]any{
		"property_id": c.Property,
		"tier":        tier,
		"seed":        seed,
		"level":       "model_checking",
		"wall_s":      wall.Seconds(),
		"violations":  len(seenSig),
		"assumptions": c.Assume,
		"coverage": map[string]any{
			"states":                         max(tot.Points, 1),
			"transitions":                    max(tot.Steps, 1),
			"traces_validated_against_impl":  tot.Executions,
			"evaluations":                    tot.Executions,
			"distinct_nontrivial":            tot.Outcomes,
			"rule":                           c.Rule,
			"exhaustive":                     exhaustive,
			"samples":                        samples,
			"technique":                      c.Technique,
			"units":                          len(units),
			"units_completed":                len(sums),
			"min_deviation_bound_completed":  minBound,
			"executions_with_context_switch": tot.Nontrivial,
			"horizon_hits":                   tot.HorizonHits,
			"max_threads":                    tot.MaxThreads,
			"known_findings_reproduced":      knownHit,
			"per_unit":                       sums,
		},
	}
	for k, v := range extra {
		ev["coverage"].(map[string]any)[k] = v
	}
	b, _ := json.MarshalIndent(ev, "", " ")
	os.MkdirAll(filepath.Join(outDir(), "evidence"), 0o755)
	if err := os.WriteFile(filepath.Join(outDir(), "evidence", c.Property+".json"), b, 0o644); err != nil {
		fmt.Println("INFRA: cannot write evidence:", err)
		return 2
	}
	fmt.Printf("%s %s: units=%d executions=%d decision_points=%d steps=%d distinct_outcomes=%d min_bound_completed=%d exhaustive=%v wall=%.1fs violations=%d known=%d\n",
		c.Property, tier, len(units), tot.Executions, tot.Points, tot.Steps, tot.Outcomes, minBound, exhaustive, wall.Seconds(), len(seenSig), len(knownHit))
	if infra {
		return 2
	}
	return exit
}
