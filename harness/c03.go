package main

// C03 — Circuit breaker follows its documented three-state machine (BX).
//
// The reference model below is written from the builder documentation and the property
// statement: an explicit list of (instant, outcome) records, no buckets, no bit sets.

import (
	"errors"
	"fmt"
	"math"
	"sort"
	"strings"
	"time"

	"github.com/failsafe-go/failsafe-go"
	"github.com/failsafe-go/failsafe-go/circuitbreaker"
	"github.com/failsafe-go/failsafe-go/verifrt/vrt"
)

type cbRecord struct {
	at int64
	ok bool
}

type cbModel struct {
	s     Spec
	state circuitbreaker.State
	// closed / half-open: results recorded in the current state
	recs []cbRecord
	// open
	openedAt  int64
	delay     int64
	frozen    [5]uint // metrics of the state before opening
	dirtyOpen bool    // something was recorded while open: metrics unspecified until the next transition
	// half-open
	permits     int
	outstanding int // trial permits handed out and not yet returned
	bonus       int // results recorded in half-open by nobody who held a permit (stragglers admitted earlier, direct Record* calls): the statement does not say whether each frees a permit, so that many extra admissions are accepted either way
	events      []string
	evMetrics   [][5]uint // per event: the metrics of the state that was left
	evMetricsOK []bool    // whether those are pinned (not for a time window's envelope, nor for an open state something was recorded in)
}

func (m *cbModel) now() int64 { return vrt.Elapsed() }

func (m *cbModel) capacityHalfOpen() int { return halfOpenCapacity(m.s) }

func (m *cbModel) closedCapacity() int {
	if m.s.FC != 0 {
		return int(m.s.FC)
	}
	if m.s.FT != 0 {
		return int(m.s.FT)
	}
	return 1
}

func (m *cbModel) timeBased() bool { return m.s.FPeriod != 0 }

func pct(x, n int) uint {
	if n == 0 {
		return 0
	}
	return uint(math.Round(float64(x) / float64(n) * 100))
}

// window returns the possible (executions, failures) pairs of the current state.
func (m *cbModel) window() [][2]int {
	if m.state == circuitbreaker.ClosedState && m.timeBased() {
		P := int64(m.s.FPeriod)
		now := m.now()
		lo := now - P      // records at or before lo never count
		hi := now - P*9/10 // records at or after hi always count
		cuts := []int64{hi}
		for _, r := range m.recs {
			if r.at > lo && r.at < hi {
				cuts = append(cuts, r.at)
			}
		}
		var out [][2]int
		for _, c := range cuts {
			n, f := 0, 0
			for _, r := range m.recs {
				if r.at >= c && r.at > lo {
					n++
					if !r.ok {
						f++
					}
				}
			}
			out = append(out, [2]int{n, f})
		}
		return out
	}
	capacity := m.closedCapacity()
	if m.state == circuitbreaker.HalfOpenState {
		capacity = m.capacityHalfOpen()
	}
	rs := m.recs
	if len(rs) > capacity {
		rs = rs[len(rs)-capacity:]
	}
	f := 0
	for _, r := range rs {
		if !r.ok {
			f++
		}
	}
	return [][2]int{{len(rs), f}}
}

// verdict of a threshold over the possible windows: +1 must hold, -1 must not, 0 either.
func tri(ws [][2]int, pred func(n, f int) int) int {
	all, none := true, true
	for _, w := range ws {
		switch pred(w[0], w[1]) {
		case 1:
			none = false
		case -1:
			all = false
		default:
			all, none = false, false
		}
	}
	if all {
		return 1
	}
	if none {
		return -1
	}
	return 0
}

func atLeast(x, t int) int {
	if x >= t {
		return 1
	}
	return -1
}

// rateAtLeast compares 100*x/n with r, leaving the half-point rounding band undecided.
func rateAtLeast(x, n int, r float64, strict bool) int {
	if n == 0 {
		return -1
	}
	v := 100 * float64(x) / float64(n)
	if v >= r+0.5 {
		return 1
	}
	if v < r-0.5 {
		return -1
	}
	if !strict && v >= r && math.Abs(v-r) < 1e-9 {
		return 1
	}
	return 0
}

func (m *cbModel) metrics() [5]uint {
	w := m.window()[0]
	n, f := w[0], w[1]
	return [5]uint{uint(n), uint(f), pct(f, n), uint(n - f), pct(n-f, n)}
}

func (m *cbModel) transition(to circuitbreaker.State, delay int64) {
	if m.state == to {
		return
	}
	old := m.state
	oldMetrics := m.frozen
	if old != circuitbreaker.OpenState {
		oldMetrics = m.metrics()
	}
	m.events = append(m.events, fmt.Sprintf("%v->%v", old, to))
	m.evMetrics = append(m.evMetrics, oldMetrics)
	m.evMetricsOK = append(m.evMetricsOK, !(old == circuitbreaker.ClosedState && m.timeBased()) && !(old == circuitbreaker.OpenState && (m.dirtyOpen || m.s.FPeriod != 0)))
	switch to {
	case circuitbreaker.OpenState:
		m.frozen = oldMetrics
		m.openedAt, m.delay = m.now(), delay
		m.dirtyOpen = false
	case circuitbreaker.ClosedState:
		m.recs = nil
	case circuitbreaker.HalfOpenState:
		m.recs = nil
		m.permits = m.capacityHalfOpen()
		m.outstanding = 0
		m.bonus = 0
	}
	m.state = to
}

// record applies one result. decided reports what the documented machine requires:
// "open", "close", "" (stay), or "?" when the statement leaves it open (window envelope / rounding).
func (m *cbModel) requirement(ok bool) string {
	switch m.state {
	case circuitbreaker.OpenState:
		return ""
	case circuitbreaker.ClosedState:
		m.recs = append(m.recs, cbRecord{m.now(), ok})
		ws := m.window()
		var v int
		switch {
		case m.s.FRate != 0:
			v = tri(ws, func(n, f int) int {
				if n < int(m.s.FExec) {
					return -1
				}
				return rateAtLeast(f, n, float64(m.s.FRate), false)
			})
		default:
			t := int(m.s.FT)
			if t == 0 {
				t = 1
			}
			v = tri(ws, func(n, f int) int { return atLeast(f, t) })
		}
		switch v {
		case 1:
			return "open"
		case -1:
			return ""
		}
		return "?"
	default: // half-open
		m.recs = append(m.recs, cbRecord{m.now(), ok})
		w := m.window()[0]
		n, f := w[0], w[1]
		s := n - f
		switch {
		case m.s.ST != 0:
			sc := int(m.s.SC)
			if sc == 0 {
				sc = int(m.s.ST)
			}
			if s >= int(m.s.ST) {
				return "close"
			}
			if f > sc-int(m.s.ST) {
				return "open"
			}
		case m.s.FRate != 0:
			if n >= int(m.s.FExec) {
				// "closes or re-opens exactly when the thresholds over trial results are decided"
				switch rateAtLeast(f, n, float64(m.s.FRate), false) {
				case 1:
					return "open"
				case -1:
					return "close"
				}
				return "?"
			}
		default:
			t, c := int(m.s.FT), m.closedCapacity()
			if t == 0 {
				t = 1
			}
			if f >= t {
				return "open"
			}
			if s > c-t {
				return "close"
			}
		}
		return ""
	}
}

// cbRun drives the real breaker and the model in lockstep.
type cbRun struct {
	s         Spec
	cb        circuitbreaker.CircuitBreaker[int]
	m         *cbModel
	events    []string
	evMetrics [][5]uint
	slice     int64
}

func cbMetricsOf(x circuitbreaker.Metrics) [5]uint {
	return [5]uint{x.Executions(), x.Failures(), x.FailureRate(), x.Successes(), x.SuccessRate()}
}

func newCBRun(s Spec) *cbRun {
	r := &cbRun{s: s, m: &cbModel{s: s}}
	b := circuitbreaker.Builder[int]()
	b = applyHandle(b, s.Handle)
	switch {
	case s.FRate != 0:
		b = b.WithFailureRateThreshold(s.FRate, s.FExec, s.FPeriod)
	case s.FPeriod != 0:
		b = b.WithFailureThresholdPeriod(s.FT, s.FPeriod)
	case s.FC != 0 && s.FC != s.FT:
		b = b.WithFailureThresholdRatio(s.FT, s.FC)
	case s.FT != 0:
		b = b.WithFailureThreshold(s.FT)
	}
	if s.SC != 0 && s.SC != s.ST {
		b = b.WithSuccessThresholdRatio(s.ST, s.SC)
	} else if s.ST != 0 {
		b = b.WithSuccessThreshold(s.ST)
	}
	b = b.WithDelay(s.BDelay)
	if s.DelayFn != nil {
		b = b.WithDelayFunc(s.DelayFn)
	}
	rec := func(kind string) func(circuitbreaker.StateChangedEvent) {
		return func(e circuitbreaker.StateChangedEvent) {
			r.events = append(r.events, fmt.Sprintf("%s:%v->%v", kind, e.OldState, e.NewState))
			r.evMetrics = append(r.evMetrics, cbMetricsOf(e.Metrics()))
		}
	}
	b = b.OnOpen(rec("open")).OnClose(rec("close")).OnHalfOpen(rec("halfopen")).OnStateChanged(rec("changed"))
	r.cb = b.Build()
	r.slice = int64(s.FPeriod) / 10
	return r
}

func (r *cbRun) Enabled(op string) bool {
	m := r.m
	switch op {
	case "succ", "fail", "res0", "res1", "errE1", "errE2":
		return true
	case "t->delay-1", "t->delay":
		return m.state == circuitbreaker.OpenState && m.now() < m.openedAt+m.delay-boolInt(op == "t->delay-1")
	case "t+slice-1", "t+slice", "t+3slices", "t+8slices", "t+P":
		return r.s.FPeriod != 0
	case "execOk", "execErr":
		return true
	}
	return true
}

func boolInt(b bool) int64 {
	if b {
		return 1
	}
	return 0
}

func (r *cbRun) Key() string {
	m := r.m
	return fmt.Sprintf("%s|t=%d|%v|%v|%d|%d|%v", dumpState(r.cb), vrt.Elapsed(), m.state, m.recs, m.permits, m.outstanding, m.dirtyOpen) + fmt.Sprint("|", m.bonus)
}

// Apply performs op on both sides and compares.
func (r *cbRun) Apply(op string) string {
	m := r.m
	r.events, r.evMetrics = nil, nil
	m.events, m.evMetrics, m.evMetricsOK = nil, nil, nil
	want := "" // requirement on the transition caused by a record
	recorded := false
	switch op {
	case "succ":
		want, recorded = r.record(true, func() { r.cb.RecordSuccess() })
	case "fail":
		want, recorded = r.record(false, func() { r.cb.RecordFailure() })
	case "res0":
		want, recorded = r.record(!isFailure(r.s.Handle, 0, nil), func() { r.cb.RecordResult(0) })
	case "res1":
		want, recorded = r.record(!isFailure(r.s.Handle, 1, nil), func() { r.cb.RecordResult(1) })
	case "errE1":
		want, recorded = r.record(!isFailure(r.s.Handle, 0, E1), func() { r.cb.RecordError(E1) })
	case "errE2":
		want, recorded = r.record(!isFailure(r.s.Handle, 0, E2), func() { r.cb.RecordError(E2) })
	case "acq":
		got := r.cb.TryAcquirePermit()
		if exp := m.acquireGiven(got); got != exp {
			return fmt.Sprintf("TryAcquirePermit returned %v in state %v at t=%d, the documented machine says %v (free trial permits %d, in progress %d)", got, m.state, m.now(), exp, m.permits, m.outstanding)
		}
	case "open":
		r.cb.Open()
		m.transition(circuitbreaker.OpenState, int64(r.s.BDelay))
	case "halfopen":
		r.cb.HalfOpen()
		m.transition(circuitbreaker.HalfOpenState, 0)
	case "close":
		r.cb.Close()
		m.transition(circuitbreaker.ClosedState, 0)
	case "execOk", "execErr":
		var fnErr error
		if op == "execErr" {
			fnErr = E1
		}
		invoked := false
		v, err := failsafe.NewExecutor[int](r.cb).Get(func() (int, error) { invoked = true; return 1, fnErr })
		admitted := m.acquireGiven(invoked)
		if !admitted {
			if !errors.Is(err, circuitbreaker.ErrOpen) || invoked {
				return fmt.Sprintf("execution in state %v at t=%d: got (%d,%v) invoked=%v, want ErrOpen without invoking the function", m.state, m.now(), v, err, invoked)
			}
		} else {
			if !invoked || err != fnErr || v != 1 {
				return fmt.Sprintf("execution admitted in state %v: got (%d,%v) invoked=%v, want the function's outcome (1,%v)", m.state, v, err, invoked, fnErr)
			}
			ok := !isFailure(r.s.Handle, 1, fnErr)
			want = m.requirement(ok)
			recorded = true
			m.release()
			if m.state == circuitbreaker.OpenState {
				m.dirtyOpen = true
			}
			delay := int64(r.s.BDelay)
			if r.s.DelayFn != nil && !ok {
				delay = int64(r.s.DelayFn(nil))
			}
			if msg := r.settle(want, delay); msg != "" {
				return msg
			}
		}
	case "t+1":
		vrt.Sleep(1)
	case "t+slice-1":
		vrt.Sleep(r.slice - 1)
	case "t+slice":
		vrt.Sleep(r.slice)
	case "t+3slices":
		vrt.Sleep(3 * r.slice)
	case "t+8slices":
		vrt.Sleep(8 * r.slice)
	case "t+P":
		vrt.Sleep(int64(r.s.FPeriod))
	case "t->delay-1":
		vrt.Sleep(m.openedAt + m.delay - 1 - m.now())
	case "t->delay":
		vrt.Sleep(m.openedAt + m.delay - m.now())
	default:
		panic("unknown op " + op)
	}
	if recorded && !strings.HasPrefix(op, "exec") {
		if msg := r.settle(want, int64(r.s.BDelay)); msg != "" {
			return msg
		}
	}
	return r.compareEvents(op)
}

func (r *cbRun) record(ok bool, do func()) (string, bool) {
	m := r.m
	do()
	want := m.requirement(ok)
	m.release()
	if m.state == circuitbreaker.OpenState {
		m.dirtyOpen = true
	}
	return want, true
}

// release: a result has been recorded. In half-open a holder gives its permit back; a result recorded
// by nobody who held one may or may not free a permit.
func (m *cbModel) release() {
	if m.state != circuitbreaker.HalfOpenState {
		return
	}
	if m.outstanding > 0 {
		m.outstanding--
		m.permits++
	} else {
		m.bonus++
	}
}

// acquireGiven is acquire with the implementation's answer at hand: where the statement leaves the
// admission open (only "bonus" permits left) that answer is adopted.
func (m *cbModel) acquireGiven(real bool) bool {
	if m.state == circuitbreaker.OpenState && m.now()-m.openedAt >= m.delay {
		m.transition(circuitbreaker.HalfOpenState, 0)
	}
	if m.state == circuitbreaker.HalfOpenState && m.permits == 0 && m.bonus > 0 {
		if real {
			m.bonus--
			m.outstanding++
		}
		return real
	}
	return m.acquire()
}

func (m *cbModel) acquire() bool {
	switch m.state {
	case circuitbreaker.ClosedState:
		return true
	case circuitbreaker.OpenState:
		if m.now()-m.openedAt >= m.delay {
			m.transition(circuitbreaker.HalfOpenState, 0)
			return m.acquire()
		}
		return false
	default:
		if m.permits > 0 {
			m.permits--
			m.outstanding++
			return true
		}
		return false
	}
}

// settle makes the model take the transition the statement requires after a record; where the
// statement leaves the decision open ("?") the implementation's choice is adopted.
func (r *cbRun) settle(want string, delay int64) string {
	m := r.m
	got := r.cb.State()
	switch want {
	case "open":
		m.transition(circuitbreaker.OpenState, delay)
	case "close":
		m.transition(circuitbreaker.ClosedState, 0)
	case "?":
		if got != m.state {
			if got == circuitbreaker.OpenState {
				m.transition(circuitbreaker.OpenState, delay)
			} else if got == circuitbreaker.ClosedState {
				m.transition(circuitbreaker.ClosedState, 0)
			}
		}
	}
	if got != m.state {
		return fmt.Sprintf("after the record the breaker is %v, the documented machine is %v (t=%d, results in state: %v)", got, m.state, m.now(), m.recs)
	}
	// the decision must fall within the trial capacity
	if m.state == circuitbreaker.HalfOpenState && len(m.recs) >= m.capacityHalfOpen() {
		return fmt.Sprintf("half-open breaker has seen %d trial results without deciding (capacity %d)", len(m.recs), m.capacityHalfOpen())
	}
	return ""
}

func (r *cbRun) compareEvents(op string) string {
	m := r.m
	// expected: for each model transition, the specific then the generic event
	var want []string
	for _, e := range m.events {
		to := e[strings.Index(e, "->")+2:]
		kind := map[string]string{"open": "open", "closed": "close", "half-open": "halfopen"}[to]
		want = append(want, kind+":"+e, "changed:"+e)
	}
	if strings.Join(want, ",") != strings.Join(r.events, ",") {
		return fmt.Sprintf("op %s at t=%d: state-change events %v, the documented machine emits %v", op, m.now(), r.events, want)
	}
	// both listeners of a change see the metrics of the state that was left
	for k := range m.events {
		if !m.evMetricsOK[k] || 2*k+1 >= len(r.evMetrics) {
			continue
		}
		for _, got := range r.evMetrics[2*k : 2*k+2] {
			if got != m.evMetrics[k] {
				return fmt.Sprintf("op %s at t=%d: the %s event carries metrics %v (executions, failures, failure rate, successes, success rate); the state that was left had %v", op, m.now(), m.events[k], got, m.evMetrics[k])
			}
		}
	}
	return ""
}

// Probe compares the pure observers.
func (r *cbRun) Probe() string {
	m := r.m
	if got := r.cb.State(); got != m.state {
		return fmt.Sprintf("State()=%v, model %v", got, m.state)
	}
	if r.cb.IsOpen() != (m.state == circuitbreaker.OpenState) || r.cb.IsClosed() != (m.state == circuitbreaker.ClosedState) || r.cb.IsHalfOpen() != (m.state == circuitbreaker.HalfOpenState) {
		return "IsOpen/IsClosed/IsHalfOpen disagree with State()"
	}
	wantDelay := int64(0)
	if m.state == circuitbreaker.OpenState {
		wantDelay = max(0, m.delay-(m.now()-m.openedAt))
	}
	if got := int64(r.cb.RemainingDelay()); got != wantDelay {
		return fmt.Sprintf("RemainingDelay()=%d at t=%d, want %d (opened t=%d, delay %d)", got, m.now(), wantDelay, m.openedAt, m.delay)
	}
	got := cbMetricsOf(r.cb.Metrics())
	switch {
	case m.state == circuitbreaker.OpenState:
		if !m.dirtyOpen && got != m.frozen && !(r.s.FPeriod != 0) {
			return fmt.Sprintf("Metrics() while open = %v, want those of the previous state %v", got, m.frozen)
		}
	case m.state == circuitbreaker.ClosedState && m.timeBased():
		// defined right after a record; the window envelope leaves several readings
		if len(m.recs) > 0 && m.recs[len(m.recs)-1].at == m.now() {
			ok := false
			for _, w := range m.window() {
				n, f := w[0], w[1]
				if got == [5]uint{uint(n), uint(f), pct(f, n), uint(n - f), pct(n-f, n)} {
					ok = true
				}
			}
			if !ok {
				return fmt.Sprintf("Metrics()=%v at t=%d; possible windows (executions,failures): %v", got, m.now(), m.window())
			}
		}
	default:
		if want := m.metrics(); got != want {
			return fmt.Sprintf("Metrics()=%v in state %v, want %v (executions, failures, failure rate, successes, success rate)", got, m.state, want)
		}
	}
	return ""
}

func c03Systems(tier string) []*BXSystem {
	const P = 100 * time.Nanosecond
	const D = 50 * time.Nanosecond
	var fails []Spec
	for _, t := range []uint{1, 2, 3} {
		fails = append(fails, Spec{Kind: KBreaker, FT: t, FC: t})
	}
	for _, tc := range [][2]uint{{1, 2}, {2, 3}, {2, 4}, {3, 5}} {
		fails = append(fails, Spec{Kind: KBreaker, FT: tc[0], FC: tc[1]})
	}
	for _, t := range []uint{1, 2, 3} {
		fails = append(fails, Spec{Kind: KBreaker, FT: t, FC: t, FPeriod: P})
	}
	for _, r := range []uint{34, 50, 100} {
		for _, e := range []uint{1, 2, 4} {
			fails = append(fails, Spec{Kind: KBreaker, FRate: r, FExec: e, FPeriod: P})
		}
	}
	succs := [][2]uint{{0, 0}, {1, 1}, {2, 2}, {1, 2}, {2, 3}, {3, 5}}
	var out []*BXSystem
	baseOps := []string{"succ", "fail", "acq", "execOk", "execErr", "open", "halfopen", "close", "t+1", "t->delay-1", "t->delay", "t+slice-1", "t+slice", "t+3slices", "t+8slices", "t+P"}
	var quickOps []string
	for _, o := range baseOps {
		if o != "t+3slices" && o != "t+8slices" {
			quickOps = append(quickOps, o)
		}
	}
	i := 0
	for _, f := range fails {
		for _, sc := range succs {
			i++
			if tier != "thorough" && !(sc[0] == 0 || i%3 == 0) {
				continue // quick: every failure configuration without success threshold, a third of the rest
			}
			s := f
			s.ST, s.SC = sc[0], sc[1]
			s.BDelay = D
			sp := s
			ops := baseOps
			if tier != "thorough" && sc[0] != 0 {
				ops = quickOps // quick: the multi-slice advances go with every failure configuration, not with every success threshold
			}
			out = append(out, &BXSystem{Name: "C03/" + sp.String(), Ops: ops, New: func() BXRun { return newCBRun(sp) }})
		}
	}
	// handle conditions through RecordResult / RecordError
	h := Spec{Kind: KBreaker, FT: 2, FC: 3, BDelay: D, Handle: []Cond{{K: "errs", E: E1}, {K: "result", V: 0}}}
	out = append(out, &BXSystem{Name: "C03/" + h.String(), Ops: []string{"res0", "res1", "errE1", "errE2", "acq", "t->delay", "t+1"}, New: func() BXRun { return newCBRun(h) }})
	// delay function (used when a failing execution opens the breaker)
	df := Spec{Kind: KBreaker, FT: 1, FC: 1, ST: 1, SC: 2, BDelay: D, DelayFn: func(e failsafe.ExecutionAttempt[int]) time.Duration {
		// Retry-After style: the delay depends on the failure that opens the breaker (the reference calls it with nil)
		if e == nil || (e.LastError() == E1 && e.LastResult() == 1) {
			return 70
		}
		return 20
	}}
	out = append(out, &BXSystem{Name: "C03/delayfn " + df.String(), Ops: baseOps[:11], New: func() BXRun { return newCBRun(df) }})
	// the "stay open until closed manually" idiom: the largest possible delay
	for _, huge := range []time.Duration{math.MaxInt64, 250 * 365 * 24 * time.Hour} {
		hs := Spec{Kind: KBreaker, FT: 1, FC: 1, BDelay: huge}
		out = append(out, &BXSystem{Name: "C03/huge-delay " + hs.String(), Ops: []string{"succ", "fail", "acq", "execOk", "execErr", "open", "halfopen", "close", "t+1"}, New: func() BXRun { return newCBRun(hs) }})
	}
	// different alignments of the clock with the window slices
	for _, off := range []int64{3, 9} {
		tp := Spec{Kind: KBreaker, FT: 2, FC: 2, FPeriod: P, BDelay: D}
		out = append(out, &BXSystem{Name: fmt.Sprintf("C03/epoch+%d %s", off, tp.String()), Ops: baseOps, Epoch: vrt.DefaultEpoch + off, New: func() BXRun { return newCBRun(tp) }})
	}
	sort.SliceStable(out, func(a, b int) bool { return false })
	return out
}

func init() {
	bxSystemSets["C03"] = c03Systems
	register(&CheckDef{
		Property:  "C03",
		Technique: "explicit-state breadth-first search over operation histories of the real circuit breaker with exact state de-duplication, compared with a reference model in every state",
		Rule: "a state is reached by replaying an operation history (records, permit requests, executions, manual transitions, clock advances onto slice and delay boundaries) on a fresh real breaker under the virtual clock; " +
			"states are merged only when the exact dump of the breaker, the clock and the model state coincide; distinct = distinct states",
		Assume: []string{"window envelope: results older than the period never count, those from its most recent nine tenths always do (in between either reading is accepted)",
			"percentage thresholds within half a point of the threshold accept either decision", "a result recorded in half-open by nobody who holds a trial permit (a straggler admitted earlier, a direct Record* call) counts as a trial result; whether it also frees a permit is not stated: that many admissions beyond the free permits are accepted either way, admissions within the free permits are required",
			"metrics of an open breaker are compared only while nothing has been recorded since it opened"},
		Budget: map[string]time.Duration{"quick": 240 * time.Second},
		Units: func(tier string) []Unit {
			depth := 6
			if tier == "thorough" {
				depth = 9
			}
			var us []Unit
			for _, s := range c03Systems(tier) {
				us = append(us, bxUnit(s, depth))
			}
			return us
		},
	})
}
