package main

// Harness toolkit: a small description language for policy stacks, outcome scripts and the
// observations every check is built from. All policies are built through the public builders.

import (
	"context"
	"errors"
	"fmt"
	"strconv"
	"strings"
	"sync"
	"time"
	"unsafe"

	"github.com/failsafe-go/failsafe-go"
	"github.com/failsafe-go/failsafe-go/bulkhead"
	"github.com/failsafe-go/failsafe-go/cachepolicy"
	"github.com/failsafe-go/failsafe-go/circuitbreaker"
	"github.com/failsafe-go/failsafe-go/fallback"
	"github.com/failsafe-go/failsafe-go/hedgepolicy"
	"github.com/failsafe-go/failsafe-go/ratelimiter"
	"github.com/failsafe-go/failsafe-go/retrypolicy"
	"github.com/failsafe-go/failsafe-go/timeout"
	"github.com/failsafe-go/failsafe-go/verifrt/vrt"
)

var (
	E1 = errors.New("E1")
	E2 = errors.New("E2")
	E3 = errors.New("E3")
)

var E4 = errors.New("E4")

type OtherErr struct{}

func (OtherErr) Error() string { return "OtherErr" }

// typed errors for HandleErrorTypes
type ValErr struct{ N int }

func (e ValErr) Error() string { return "ValErr" + strconv.Itoa(e.N) }

type PtrErr struct{ N int }

func (e *PtrErr) Error() string { return "PtrErr" + strconv.Itoa(e.N) }

type Kind int

const (
	KRetry Kind = iota
	KBreaker
	KLimiter
	KBulkhead
	KTimeout
	KHedge
	KFallback
	KCache
)

var kindNames = [...]string{"retry", "breaker", "limiter", "bulkhead", "timeout", "hedge", "fallback", "cache"}

func (k Kind) String() string { return kindNames[k] }

// Cond is one handle / abort / cancel / cache condition.
type Cond struct {
	K string // "errs", "types", "result", "if:<name>"
	// Es / Ts: further errors / type targets passed in the same builder call, after E / T
	Es []error
	Ts []any
	E  error
	V  int
	T  any
	F  func(int, error) bool
}

func (c Cond) String() string {
	switch c.K {
	case "errs":
		x := "errs(" + c.E.Error()
		for _, e := range c.Es {
			x += "," + e.Error()
		}
		return x + ")"
	case "types":
		x := fmt.Sprintf("types(%T", c.T)
		for _, t := range c.Ts {
			x += fmt.Sprintf(",%T", t)
		}
		return x + ")"
	case "result":
		return "result(" + strconv.Itoa(c.V) + ")"
	case "errs0":
		return "errs()"
	}
	return c.K
}

func condStr(cs []Cond) string {
	var s []string
	for _, c := range cs {
		s = append(s, c.String())
	}
	return strings.Join(s, "+")
}

// Spec describes one policy instance.
type Spec struct {
	Kind   Kind
	Handle []Cond

	// retry
	MaxRetries   int
	ViaAttempts  bool // configure through WithMaxAttempts(MaxRetries+1) instead of WithMaxRetries
	Abort        []Cond
	ReturnLast   bool
	Delay        time.Duration
	MaxDelay     time.Duration
	Factor       float32
	DelayMin     time.Duration
	DelayMax     time.Duration
	Jitter       time.Duration
	JitterFactor float32
	MaxDuration  time.Duration
	DelayFn      func(failsafe.ExecutionAttempt[int]) time.Duration

	// breaker
	FT, FC       uint // failure threshold / capacity (count based)
	FRate, FExec uint // rate based
	FPeriod      time.Duration
	ST, SC       uint
	BDelay       time.Duration
	Pre          string // "", "open", "halfopen"

	// limiter
	Smooth   bool
	Interval time.Duration
	Permits  uint
	Period   time.Duration
	LWait    time.Duration
	Used     uint // permits taken through the standalone API before the execution

	// bulkhead
	Conc  uint
	BWait time.Duration
	Held  uint // permits taken by a standalone caller before the execution

	// timeout
	Limit time.Duration

	// hedge
	MaxHedges  int
	HDelay     time.Duration
	DelayByErr bool            // breaker: a delay function answers BDelay when the failure that opens it is E1, else 1ns
	HDelays    []time.Duration // non-nil: a delay function; hedge k of an execution is started HDelays[k-1] after the previous attempt (last value repeated)
	Cancel     []Cond

	// fallback
	FbV    int
	FbE    error
	FbDur  time.Duration // the fallback function takes this long (it ignores cancellation) and reports what it sees again when it returns
	FbEcho bool          // the fallback's output is derived from the failure it handles: (that result + 100, FbE)

	// cache
	Key     string
	Prepop  map[string]int
	CacheIf string // "", "v1", "err"
}

func (s Spec) String() string {
	switch s.Kind {
	case KRetry:
		x := fmt.Sprintf("retry(max=%d", s.MaxRetries)
		if len(s.Handle) > 0 {
			x += ",handle=" + condStr(s.Handle)
		}
		if len(s.Abort) > 0 {
			x += ",abort=" + condStr(s.Abort)
		}
		if s.ReturnLast {
			x += ",returnLast"
		}
		if s.Delay != 0 {
			x += ",delay=" + s.Delay.String()
		}
		if s.MaxDuration != 0 {
			x += ",maxDur=" + s.MaxDuration.String()
		}
		return x + ")"
	case KBreaker:
		x := fmt.Sprintf("breaker(f=%d/%d", s.FT, s.FC)
		if s.FRate != 0 {
			x += fmt.Sprintf(",rate=%d%%/%d/%v", s.FRate, s.FExec, s.FPeriod)
		} else if s.FPeriod != 0 {
			x += ",period=" + s.FPeriod.String()
		}
		if s.ST != 0 {
			x += fmt.Sprintf(",s=%d/%d", s.ST, s.SC)
		}
		if len(s.Handle) > 0 {
			x += ",handle=" + condStr(s.Handle)
		}
		if s.Pre != "" {
			x += "," + s.Pre
		}
		if s.DelayByErr {
			return x + fmt.Sprintf(",delay=%v if E1 else 1ns)", s.BDelay)
		}
		return x + fmt.Sprintf(",delay=%v)", s.BDelay)
	case KLimiter:
		if s.Smooth {
			return fmt.Sprintf("smooth(%v,wait=%v)", s.Interval, s.LWait)
		}
		return fmt.Sprintf("bursty(%d/%v,wait=%v)", s.Permits, s.Period, s.LWait)
	case KBulkhead:
		return fmt.Sprintf("bulkhead(%d,wait=%v,held=%d)", s.Conc, s.BWait, s.Held)
	case KTimeout:
		return fmt.Sprintf("timeout(%v)", s.Limit)
	case KHedge:
		x := fmt.Sprintf("hedge(max=%d,delay=%v", s.MaxHedges, s.HDelay)
		if s.HDelays != nil {
			x = fmt.Sprintf("hedge(max=%d,delayFunc=%v", s.MaxHedges, s.HDelays)
		}
		if len(s.Cancel) > 0 {
			x += ",cancel=" + condStr(s.Cancel)
		}
		return x + ")"
	case KFallback:
		x := "fallback("
		if s.FbEcho {
			x += "echo+"
		}
		if s.FbE != nil {
			if s.FbV != 0 {
				x += strconv.Itoa(s.FbV) + "+"
			}
			x += s.FbE.Error()
		} else {
			x += strconv.Itoa(s.FbV)
		}
		if len(s.Handle) > 0 {
			x += ",handle=" + condStr(s.Handle)
		}
		return x + ")"
	case KCache:
		return fmt.Sprintf("cache(key=%q,prepop=%v,if=%s)", s.Key, s.Prepop, s.CacheIf)
	}
	return "?"
}

func stackStr(st []Spec) string {
	var s []string
	for _, x := range st {
		s = append(s, x.String())
	}
	return strings.Join(s, " > ")
}

// Out is one scripted outcome of the wrapped function.
type Out struct {
	V     int
	Err   error
	Dur   time.Duration // virtual time the invocation takes
	Block bool          // wait until the execution is cancelled (then take Dur more, then return)
	Coop  bool          // a Dur-long invocation returns early when cancelled
}

func (o Out) String() string {
	s := ""
	if o.Err != nil {
		s = "err(" + o.Err.Error() + ")"
	} else {
		s = "ok(" + strconv.Itoa(o.V) + ")"
	}
	if o.Block {
		s += "/block"
	}
	if o.Dur != 0 {
		s += "/" + strconv.FormatInt(int64(o.Dur), 10)
	}
	if o.Coop {
		s += "/coop"
	}
	return s
}

func scriptStr(sc []Out) string {
	var s []string
	for _, o := range sc {
		s = append(s, o.String())
	}
	return strings.Join(s, ",")
}

// Event is one listener call.
type Event struct {
	Exe     int // execution the event belongs to (from a context value; -1 if unknown)
	EndTick int // logical clock when the listener returned (fallback failure listener only)
	Seq0    int // value of the log position when the listener was entered (statistics are read between Seq0 and Seq)
	Seq     int // position in the execution's combined log of events and probe records
	Tick    int
	Policy  int // index in the stack, -1 = executor
	Name    string
	At      int64
	Thread  int
	// statistics as seen by the listener
	Attempts, Executions, Retries, Hedges int
	HasStats                              bool
	LastV                                 int
	LastE                                 error
	Delay                                 time.Duration
	V                                     int
	E                                     error
	IsHedge                               bool
	Old, New                              circuitbreaker.State
	MExec, MFail, MSucc                   uint
}

func (e Event) String() string {
	s := e.Name
	if e.Policy >= 0 {
		s = "p" + strconv.Itoa(e.Policy) + "." + s
	}
	return s
}

// Inv is one invocation of the wrapped function.
type Inv struct {
	SeqIn, SeqOut int // positions in the combined log
	SeqRead       int // log position after the statistics were read at entry
	Tick          int
	Index         int
	Start, End    int64
	Thread        int
	// statistics at entry
	Attempts, Executions, Retries, Hedges int
	IsHedge, IsRetry, IsFirst             bool
	LastV                                 int
	LastE                                 error
	CanceledAtStart                       bool
	CanceledAtEnd                         bool
	Returned                              bool
	Exec                                  failsafe.Execution[int]
	ExecutionsAtExit                      int
	LastVExit                             int // LastResult / LastError read again just before the function returns
	LastEExit                             error
}

// Env is the state of one program run: policy instances and the observations.
type Env struct {
	Stack    []Spec
	Policies []failsafe.Policy[int]
	Breakers map[int]circuitbreaker.CircuitBreaker[int]
	Bulks    map[int]bulkhead.Bulkhead[int]
	Limiters map[int]ratelimiter.RateLimiter[int]
	Caches   map[int]*MapCache

	Script    []Out
	Invs      []*Inv
	Events    []Event
	InFlight  int
	MaxFlight int
	FbCalls   int
	Quiet     bool // do not record events (race build: events are shared memory)

	Recs       []*Rec
	seq        int
	openApps   int
	appCount   []int
	ProbeStats bool

	ExternalCancel bool // the scenario cancels the execution from outside (context / ExecutionResult.Cancel)
	Completed      bool // the execution returned to the caller
	ResV           int
	ResE           error
	DoneAt         int64
	Ctx            context.Context
	Exes           []*Exe
	ExecStart      int64 // virtual instant at which the current execution started
	OnEnter        func(x *Exe, inv *Inv)
	Held           int // permits held through a standalone API
	Notes          string
	QuietCounts    []quietCount // quiet mode: how often each listener fired (no per-event record)
	Grants         [][2]int64   // (limiter index, instant at which a permit obtained through its standalone API becomes usable)
	Reduce         bool         // observation points are scheduling points on the env (needed with the state cache)
	Tick           int          // number of observation points so far (a logical clock over observations)
	OnEvent        func(e *Event)
	CancelAtReturn map[*Rec]bool // hedge attempts: was the attempt's execution cancelled when the hedge returned
}

//go:norace
func (env *Env) tick() int { env.Tick++; return env.Tick }

//go:norace
func (env *Env) seqNow() int { return env.seq }

//go:norace
func (env *Env) nextSeq() int { env.seq++; return env.seq }

//go:norace
func (env *Env) fbInc() { env.FbCalls++ }

//go:norace
func (env *Env) setEndTick(idx int) {
	if idx >= 0 && idx < len(env.Events) {
		env.Events[idx].EndTick = env.Tick
	}
}

// obs makes a harness observation an event that conflicts with every other observation, so that
// the state cache explores both orders of two observations in different threads.
func (env *Env) obs() {
	if env.Reduce {
		vrt.PointObj("obs", unsafe.Pointer(env))
	}
	env.tick()
}

//go:norace
func (env *Env) note(s string) { env.Notes += s }

// MapCache is an instrumented cachepolicy.Cache.
type MapCache struct {
	Safe      bool
	mu        sync.Mutex
	env       *Env
	GetSeq    []int // position of each Get / Set in the execution's combined log
	SetSeq    []int
	GetFound  []bool
	NGets     int
	NGetsExec int // lookups during the current execution
	M         map[string]int
	Gets      []string
	Sets      []string
}

// Safe makes the cache usable from concurrent executions (the library requires that of a Cache).
func (c *MapCache) lock() {
	if c.Safe {
		c.mu.Lock()
	}
}

func (c *MapCache) unlock() {
	if c.Safe {
		c.mu.Unlock()
	}
}

func (c *MapCache) Get(key string) (int, bool) {
	c.lock()
	defer c.unlock()
	c.Gets = append(c.Gets, key)
	c.NGets++
	c.NGetsExec++
	v, ok := c.M[key]
	c.GetSeq = append(c.GetSeq, c.env.nextSeq())
	c.GetFound = append(c.GetFound, ok)
	return v, ok
}

func (c *MapCache) Set(key string, value int) {
	c.lock()
	defer c.unlock()
	c.Sets = append(c.Sets, key+"="+strconv.Itoa(value))
	c.SetSeq = append(c.SetSeq, c.env.nextSeq())
	c.M[key] = value
}

func applyHandle[B interface {
	HandleErrors(...error) B
	HandleErrorTypes(...any) B
	HandleResult(int) B
	HandleIf(func(int, error) bool) B
}](b B, cs []Cond) B {
	for _, c := range cs {
		switch {
		case c.K == "errs0":
			b = b.HandleErrors() // a registration call with an empty list: no condition is configured
		case c.K == "errs":
			{
				sc := regErrs(c)
				b = b.HandleErrors(sc...)
				scribble(sc)
			}
		case c.K == "types":
			{
				sc := regTypes(c)
				b = b.HandleErrorTypes(sc...)
				scribble(sc)
			}
		case c.K == "result":
			b = b.HandleResult(c.V)
		default:
			b = b.HandleIf(c.F)
		}
	}
	return b
}

type quietCount struct {
	P    int
	Name string
	N    int
}

// countQuiet uses a slice, not a map: the runtime's map functions report to the race detector whatever
// the caller's pragma says.
//
//go:norace
func (env *Env) countQuiet(p int, name string) {
	for i := range env.QuietCounts {
		if c := &env.QuietCounts[i]; c.P == p && c.Name == name {
			c.N++
			return
		}
	}
	env.QuietCounts = append(env.QuietCounts, quietCount{p, name, 1})
}

func (env *Env) quietCount(p int, name string) int {
	for _, c := range env.QuietCounts {
		if c.P == p && c.Name == name {
			return c.N
		}
	}
	return 0
}

//go:norace
func (env *Env) addGrant(limiter int, at int64) {
	env.Grants = append(env.Grants, [2]int64{int64(limiter), at})
}

//go:norace
func (env *Env) ev(e Event) {
	if env.Quiet {
		env.countQuiet(e.Policy, e.Name)
		return
	}
	e.At = vrt.Elapsed()
	e.Thread = vrt.ThreadID()
	e.Tick = env.Tick
	env.seq++
	e.Seq = env.seq
	env.Events = append(env.Events, e)
	if env.OnEvent != nil {
		env.OnEvent(&env.Events[len(env.Events)-1])
	}
}

func (env *Env) attemptEv(p int, name string) func(failsafe.ExecutionEvent[int]) {
	return func(e failsafe.ExecutionEvent[int]) {
		vrt.EnterUser()
		defer vrt.ExitUser()
		env.obs()
		s0 := env.seqNow()
		env.ev(Event{Exe: exeOf(e.Context()), Seq0: s0, Policy: p, Name: name, HasStats: true, Attempts: e.Attempts(), Executions: e.Executions(), Retries: e.Retries(), Hedges: e.Hedges(),
			LastV: e.LastResult(), LastE: e.LastError(), IsHedge: e.IsHedge()})
		if name == "failure" && p >= 0 && env.Stack[p].Kind == KFallback && !env.Quiet {
			idx := len(env.Events) - 1
			env.obs()
			env.setEndTick(idx)
		}
	}
}

func (env *Env) doneEv(p int, name string) func(failsafe.ExecutionDoneEvent[int]) {
	return func(e failsafe.ExecutionDoneEvent[int]) {
		vrt.EnterUser()
		defer vrt.ExitUser()
		env.obs()
		s0 := env.seqNow()
		env.ev(Event{Exe: exeOf(e.Context()), Seq0: s0, Policy: p, Name: name, HasStats: true, Attempts: e.Attempts(), Executions: e.Executions(), Retries: e.Retries(), Hedges: e.Hedges(), V: e.Result, E: e.Error})
	}
}

func (env *Env) stateEv(p int, name string) func(circuitbreaker.StateChangedEvent) {
	return func(e circuitbreaker.StateChangedEvent) {
		env.obs()
		m := e.Metrics()
		env.ev(Event{Policy: p, Name: name, Old: e.OldState, New: e.NewState, MExec: m.Executions(), MFail: m.Failures(), MSucc: m.Successes()})
	}
}

// Build constructs the policy for spec i of the stack and registers every listener.
func (env *Env) build(i int, s Spec) failsafe.Policy[int] {
	switch s.Kind {
	case KRetry:
		b := retrypolicy.Builder[int]().WithMaxRetries(s.MaxRetries)
		if s.ViaAttempts {
			b = retrypolicy.Builder[int]()
			if s.MaxRetries == -1 {
				b = b.WithMaxAttempts(-1)
			} else {
				b = b.WithMaxAttempts(s.MaxRetries + 1)
			}
		}
		b = applyHandle(b, s.Handle)
		for _, c := range s.Abort {
			switch c.K {
			case "errs":
				{
					sc := regErrs(c)
					b = b.AbortOnErrors(sc...)
					scribble(sc)
				}
			case "types":
				{
					sc := regTypes(c)
					b = b.AbortOnErrorTypes(sc...)
					scribble(sc)
				}
			case "result":
				b = b.AbortOnResult(c.V)
			default:
				b = b.AbortIf(c.F)
			}
		}
		if s.ReturnLast {
			b = b.ReturnLastFailure()
		}
		if s.MaxDelay != 0 {
			if s.Factor != 0 {
				b = b.WithBackoffFactor(s.Delay, s.MaxDelay, s.Factor)
			} else {
				b = b.WithBackoff(s.Delay, s.MaxDelay)
			}
		} else if s.Delay != 0 {
			b = b.WithDelay(s.Delay)
		}
		if s.DelayMax != 0 {
			b = b.WithRandomDelay(s.DelayMin, s.DelayMax)
		}
		if s.DelayFn != nil {
			b = b.WithDelayFunc(s.DelayFn)
		}
		if s.Jitter != 0 {
			b = b.WithJitter(s.Jitter)
		}
		if s.JitterFactor != 0 {
			b = b.WithJitterFactor(s.JitterFactor)
		}
		if s.MaxDuration != 0 {
			b = b.WithMaxDuration(s.MaxDuration)
		}
		b = b.OnSuccess(env.attemptEv(i, "success")).OnFailure(env.attemptEv(i, "failure")).
			OnAbort(env.attemptEv(i, "abort")).OnRetry(env.attemptEv(i, "retry")).OnRetriesExceeded(env.attemptEv(i, "exceeded")).
			OnRetryScheduled(func(e failsafe.ExecutionScheduledEvent[int]) {
				vrt.EnterUser()
				defer vrt.ExitUser()
				env.obs()
				s0 := env.seqNow()
				env.ev(Event{Exe: exeOf(e.Context()), Seq0: s0, Policy: i, Name: "scheduled", HasStats: true, Attempts: e.Attempts(), Executions: e.Executions(), Retries: e.Retries(), Hedges: e.Hedges(),
					LastV: e.LastResult(), LastE: e.LastError(), Delay: e.Delay})
			})
		rp := b.Build()
		b.OnRetry(strayAttempt).WithMaxRetries(0) // the builder is used again after Build: the policy built before keeps its own configuration
		return rp
	case KBreaker:
		b := circuitbreaker.Builder[int]()
		b = applyHandle(b, s.Handle)
		switch {
		case s.FRate != 0:
			b = b.WithFailureRateThreshold(s.FRate, s.FExec, s.FPeriod)
		case s.FPeriod != 0:
			b = b.WithFailureThresholdPeriod(s.FT, s.FPeriod)
		case s.FC != 0 && s.FC != s.FT:
			b = b.WithFailureThresholdRatio(s.FT, s.FC)
		case s.FT != 0:
			b = b.WithFailureThreshold(s.FT)
		}
		if s.SC != 0 && s.SC != s.ST {
			b = b.WithSuccessThresholdRatio(s.ST, s.SC)
		} else if s.ST != 0 {
			b = b.WithSuccessThreshold(s.ST)
		}
		if s.BDelay != 0 {
			b = b.WithDelay(s.BDelay)
		}
		if s.DelayByErr {
			// Retry-After style: the delay depends on the failure that opens the breaker
			long := s.BDelay
			b = b.WithDelayFunc(func(e failsafe.ExecutionAttempt[int]) time.Duration {
				if e.LastError() == E1 {
					return long
				}
				return 1
			})
		}
		b = b.OnSuccess(env.attemptEv(i, "success")).OnFailure(env.attemptEv(i, "failure")).
			OnOpen(env.stateEv(i, "open")).OnClose(env.stateEv(i, "close")).OnHalfOpen(env.stateEv(i, "halfopen")).OnStateChanged(env.stateEv(i, "changed"))
		cb := b.Build()
		// (the builders of retry policies, timeouts, hedge policies and fallbacks are used again after Build,
		// see below; Build() of breakers, bulkheads, rate limiters and cache policies shares the builder's
		// configuration with the policy on the unchanged tree, which no listed property speaks about)
		switch s.Pre {
		case "open":
			cb.Open()
		case "halfopen":
			cb.HalfOpen()
		}
		env.Breakers[i] = cb
		return cb
	case KLimiter:
		var b ratelimiter.RateLimiterBuilder[int]
		if s.Smooth {
			b = ratelimiter.SmoothBuilderWithMaxRate[int](s.Interval)
		} else {
			b = ratelimiter.BurstyBuilder[int](s.Permits, s.Period)
		}
		if s.LWait != 0 {
			b = b.WithMaxWaitTime(s.LWait)
		}
		l := b.OnRateLimitExceeded(env.attemptEv(i, "ratelimited")).Build()
		if s.Used > 0 {
			l.TryAcquirePermits(s.Used)
		}
		env.Limiters[i] = l
		return l
	case KBulkhead:
		b := bulkhead.Builder[int](s.Conc)
		if s.BWait != 0 {
			b = b.WithMaxWaitTime(s.BWait)
		}
		bh := b.OnFull(env.attemptEv(i, "full")).Build()
		for k := uint(0); k < s.Held; k++ {
			bh.TryAcquirePermit()
		}
		env.Bulks[i] = bh
		return bh
	case KTimeout:
		tb := timeout.Builder[int](s.Limit).OnTimeoutExceeded(env.doneEv(i, "timeout"))
		to := tb.Build()
		tb.OnTimeoutExceeded(strayDone)
		return to
	case KHedge:
		b := hedgepolicy.BuilderWithDelay[int](s.HDelay).WithMaxHedges(s.MaxHedges)
		if s.HDelays != nil {
			ds := s.HDelays
			b = hedgepolicy.BuilderWithDelayFunc[int](func(e failsafe.ExecutionAttempt[int]) time.Duration {
				return ds[min(e.Hedges(), len(ds)-1)]
			}).WithMaxHedges(s.MaxHedges)
		}
		for _, c := range s.Cancel {
			switch c.K {
			case "errs":
				{
					sc := regErrs(c)
					b = b.CancelOnErrors(sc...)
					scribble(sc)
				}
			case "types":
				{
					sc := regTypes(c)
					b = b.CancelOnErrorTypes(sc...)
					scribble(sc)
				}
			case "result":
				b = b.CancelOnResult(c.V)
			default:
				b = b.CancelIf(c.F)
			}
		}
		hp := b.OnHedge(env.attemptEv(i, "hedge")).Build()
		b.OnHedge(strayAttempt).WithMaxHedges(s.MaxHedges + 3)
		return hp
	case KFallback:
		b := fallback.BuilderWithFunc(func(e failsafe.Execution[int]) (int, error) {
			vrt.EnterUser()
			defer vrt.ExitUser()
			env.fbInc()
			env.obs()
			s0 := env.seqNow()
			env.ev(Event{Seq0: s0, Policy: i, Name: "fbcall", HasStats: true, Attempts: e.Attempts(), Executions: e.Executions(), Retries: e.Retries(), Hedges: e.Hedges(),
				LastV: e.LastResult(), LastE: e.LastError()})
			if s.FbDur > 0 {
				vrt.Sleep(int64(s.FbDur))
				env.obs()
				env.ev(Event{Seq0: env.seqNow(), Policy: i, Name: "fbexit", LastV: e.LastResult(), LastE: e.LastError()})
			}
			if s.FbEcho {
				return e.LastResult() + 100, s.FbE
			}
			return s.FbV, s.FbE
		})
		b = applyHandle(b, s.Handle)
		fb := b.OnSuccess(env.attemptEv(i, "success")).OnFailure(env.attemptEv(i, "failure")).OnFallbackExecuted(env.doneEv(i, "fallback")).Build()
		b.OnFallbackExecuted(strayDone) // (handle conditions and OnSuccess/OnFailure live in a base structure that builders share with their policies)
		return fb
	case KCache:
		c := &MapCache{M: map[string]int{}, env: env, Safe: env.Quiet}
		for k, v := range s.Prepop {
			c.M[k] = v
		}
		env.Caches[i] = c
		b := cachepolicy.Builder[int](c)
		if s.Key != "" {
			b = b.WithKey(s.Key)
		}
		switch s.CacheIf {
		case "v1":
			b = b.CacheIf(func(v int, err error) bool { return v == 1 })
		case "err":
			b = b.CacheIf(func(v int, err error) bool { return err != nil })
		case "v1|err": // two conditions registered: either one suffices
			b = b.CacheIf(func(v int, err error) bool { return v == 1 }).CacheIf(func(v int, err error) bool { return err != nil })
		}
		cp := b.OnCacheHit(env.doneEv(i, "hit")).OnCacheMiss(env.attemptEv(i, "miss")).OnResultCached(env.attemptEv(i, "cached")).Build()
		return cp
	}
	panic("bad kind")
}

// NewEnv builds fresh policy instances for the stack.
func NewEnv(stack []Spec) *Env { return newEnvQuiet(stack, false) }

func newEnvQuiet(stack []Spec, quiet bool) *Env {
	env := &Env{Quiet: quiet, Stack: stack, Breakers: map[int]circuitbreaker.CircuitBreaker[int]{}, Bulks: map[int]bulkhead.Bulkhead[int]{},
		Limiters: map[int]ratelimiter.RateLimiter[int]{}, Caches: map[int]*MapCache{}}
	for i, s := range stack {
		env.Policies = append(env.Policies, env.build(i, s))
	}
	return env
}

// Executor returns an executor over the stack with completion listeners registered.
func (env *Env) Executor(ctx context.Context) failsafe.Executor[int] {
	ex := failsafe.NewExecutor[int](env.Policies...)
	if ctx != nil {
		ex = ex.WithContext(ctx)
	}
	return ex.OnDone(env.doneEv(-1, "done")).OnSuccess(env.doneEv(-1, "success")).OnFailure(env.doneEv(-1, "failure"))
}

// Exe is one execution through the env's policies and what was observed of it.
type Exe struct {
	Env         *Env
	ID          int
	Script      []Out
	Invs        []*Inv
	Completed   bool
	ResV        int
	ResE        error
	DoneAt      int64
	AsyncCancel bool // cancelled through ExecutionResult.Cancel
	StartedAt   int64
	StartTick   int
	// cancellation by the harness: ticks just before / after the cancel call, and its virtual instant
	CancelTick0, CancelTick1 int
	CancelTime               int64
	DoneBeforeCancel         bool
	Ctx                      context.Context
	Cancel                   func()
}

func (env *Env) NewExe(script []Out) *Exe {
	x := &Exe{Env: env, ID: len(env.Exes), Script: script}
	env.Exes = append(env.Exes, x)
	return x
}

//go:norace
func (x *Exe) enter(exec failsafe.Execution[int]) (*Inv, Out) {
	env := x.Env
	k := len(x.Invs)
	o := x.Script[min(k, len(x.Script)-1)]
	env.seq++
	inv := &Inv{Index: k, Start: vrt.Elapsed(), Thread: vrt.ThreadID(), Exec: exec, Tick: env.Tick, SeqIn: env.seq}
	x.Invs = append(x.Invs, inv)
	env.Invs = append(env.Invs, inv)
	env.InFlight++
	if env.InFlight > env.MaxFlight {
		env.MaxFlight = env.InFlight
	}
	if env.OnEnter != nil {
		env.OnEnter(x, inv)
	}
	return inv, o
}

//go:norace
func (x *Exe) exit(inv *Inv) {
	inv.End = vrt.Elapsed()
	x.Env.seq++
	inv.SeqOut = x.Env.seq
	inv.Returned = true
	x.Env.InFlight--
}

// Fn is the wrapped function: the k-th invocation (in start order) plays Script[k] (last repeats).
func (x *Exe) Fn(exec failsafe.Execution[int]) (int, error) {
	vrt.EnterUser()
	defer vrt.ExitUser()
	env := x.Env
	env.obs()
	inv, o := x.enter(exec)
	if !env.Quiet {
		inv.Attempts, inv.Executions, inv.Retries, inv.Hedges = exec.Attempts(), exec.Executions(), exec.Retries(), exec.Hedges()
		inv.IsHedge, inv.IsRetry, inv.IsFirst = exec.IsHedge(), exec.IsRetry(), exec.IsFirstAttempt()
		inv.CanceledAtStart = exec.IsCanceled()
		if !inv.CanceledAtStart {
			inv.LastV, inv.LastE = exec.LastResult(), exec.LastError()
		}
		inv.SeqRead = env.seqNow()
	}
	switch {
	case o.Block:
		vrt.Recv(exec.Canceled())
		if o.Dur > 0 {
			vrt.Sleep(int64(o.Dur))
		}
	case o.Dur > 0 && o.Coop:
		tm := vrt.NewTimer(int64(o.Dur), false)
		switch vrt.Select(false, vrt.R(tm.C), vrt.R(exec.Canceled())) {
		case 0:
			<-tm.C
		case 1:
			tm.StopQuiet()
		}
	case o.Dur > 0:
		vrt.Sleep(int64(o.Dur))
	}
	if !env.Quiet {
		inv.CanceledAtEnd = exec.IsCanceled()
		inv.ExecutionsAtExit = exec.Executions()
		inv.LastVExit, inv.LastEExit = exec.LastResult(), exec.LastError()
	}
	env.obs()
	x.exit(inv)
	return o.V, o.Err
}

// Fn of the env's first (usually only) execution.
func (env *Env) Fn(exec failsafe.Execution[int]) (int, error) {
	if len(env.Exes) == 0 {
		env.NewExe(env.Script)
	}
	return env.Exes[0].Fn(exec)
}

func errStr(err error) string {
	if err == nil {
		return "nil"
	}
	return err.Error()
}

// ResetObs clears the observations of the previous execution; policy instances and their state stay.
func (env *Env) ResetObs() {
	env.Recs, env.Events, env.Invs, env.Exes = nil, nil, nil, nil
	env.seq, env.FbCalls, env.InFlight, env.MaxFlight = 0, 0, 0, 0
	env.Completed = false
	env.CancelAtReturn = nil
	for _, c := range env.Caches {
		c.Gets, c.Sets, c.NGetsExec = nil, nil, 0
		c.GetSeq, c.SetSeq, c.GetFound = nil, nil, nil
	}
}

type exeKeyT struct{}

func exeOf(ctx context.Context) int {
	if ctx == nil {
		return -1
	}
	if v, ok := ctx.Value(exeKeyT{}).(int); ok {
		return v
	}
	return -1
}

// fbOutput is what the fallback configured by s produces for a failure whose result is v.
func fbOutput(s Spec, v int) (int, error) {
	if s.FbEcho {
		return v + 100, s.FbE
	}
	return s.FbV, s.FbE
}

// hedgeOffset is the earliest instant, relative to the start of a hedge application, at which its k-th
// hedge (k >= 1) may start.
func hedgeOffset(s Spec, k int) int64 {
	if s.HDelays == nil {
		return int64(k) * int64(s.HDelay)
	}
	var t int64
	for i := 0; i < k; i++ {
		t += int64(s.HDelays[min(i, len(s.HDelays)-1)])
	}
	return t
}

// regErrs / regTypes build the argument list of a registration call in a scratch slice that the
// caller overwrites right afterwards (scribble), as code that configures several policies from one
// reused slice does: a policy must keep the targets it was given, not the caller's slice.
func regErrs(c Cond) []error { return append([]error{c.E}, c.Es...) }
func regTypes(c Cond) []any  { return append([]any{c.T}, c.Ts...) }

type scribbledErr struct{}

func (scribbledErr) Error() string { return "scribbled over after registration" }

func scribble[T any](sc []T) {
	for i := range sc {
		var x any = scribbledErr{}
		sc[i] = x.(T)
	}
}

// stray listeners are registered on a builder after the policy under test was built from it (code that
// derives several policies from one builder does this): the policy built before must never call them.
const strayMsg = "a listener registered on the builder after Build() was called by the policy built before: Build() does not give the policy a configuration of its own"

func strayAttempt(failsafe.ExecutionEvent[int])  { vrt.Fail(strayMsg) }
func strayDone(failsafe.ExecutionDoneEvent[int]) { vrt.Fail(strayMsg) }
