package main

// C04 — An open breaker admits nothing; half-open admits at most its trial capacity (SX).

import (
	"errors"
	"fmt"
	"math"
	"time"

	"github.com/failsafe-go/failsafe-go/circuitbreaker"
	"github.com/failsafe-go/failsafe-go/verifrt/vrt"
)

func halfOpenCapacity(s Spec) int {
	switch {
	case s.SC != 0:
		return int(s.SC)
	case s.ST != 0:
		return int(s.ST)
	case s.FExec != 0:
		return int(s.FExec)
	case s.FC != 0:
		return int(s.FC)
	case s.FT != 0:
		return int(s.FT)
	}
	return 1
}

// c04State follows the breaker's state through its own events (observation points).
type c04State struct {
	state     circuitbreaker.State
	openTick  int   // tick of the latest transition to open
	openAt    int64 // virtual instant of it
	sinceTick int   // tick of the latest transition of any kind
	trialsIn  int   // invocations in progress that entered while half-open in the current half-open episode
	episode   int
}

func c04Setup(bi int, st *c04State) func(env *Env) {
	return func(env *Env) {
		spec := env.Stack[bi]
		cap_ := halfOpenCapacity(spec)
		switch spec.Pre {
		case "open":
			st.state, st.openAt = circuitbreaker.OpenState, 0
		case "halfopen":
			st.state = circuitbreaker.HalfOpenState
		}
		env.OnEvent = func(e *Event) {
			if e.Policy != bi || e.Name != "changed" {
				return
			}
			if e.Old == circuitbreaker.OpenState && e.New == circuitbreaker.HalfOpenState && e.At-st.openAt < int64(spec.BDelay) {
				vrt.Fail(fmt.Sprintf("breaker half-opened at t=%d, %d after it opened; its delay is %v", e.At, e.At-st.openAt, spec.BDelay))
			}
			st.state, st.sinceTick = e.New, e.Tick
			st.episode++
			if e.New == circuitbreaker.OpenState {
				st.openTick, st.openAt = e.Tick, e.At
			}
		}
		env.OnEnter = func(x *Exe, inv *Inv) {
			// an invocation that enters while the breaker has been open since before this execution started
			if st.state == circuitbreaker.OpenState && x.StartTick > st.openTick && vrt.Elapsed()-st.openAt < int64(spec.BDelay) {
				vrt.Fail(fmt.Sprintf("function invoked at t=%d by an execution that started after the breaker opened (t=%d) and before its delay %v elapsed", vrt.Elapsed(), st.openAt, spec.BDelay))
			}
			if st.state == circuitbreaker.HalfOpenState {
				// count the invocations in progress that entered in this half-open episode
				n := 0
				for _, y := range env.Exes {
					for _, i := range y.Invs {
						if !i.Returned && i.Tick >= st.sinceTick {
							n++
						}
					}
				}
				if n > cap_ {
					vrt.Fail(fmt.Sprintf("%d executions admitted while half-open are in progress, trial capacity is %d", n, cap_))
				}
			}
		}
	}
}

func c04Final(bi int, st *c04State, bare bool) func(env *Env) string {
	return func(env *Env) string {
		spec := env.Stack[bi]
		cb := env.Breakers[bi]
		for _, x := range env.Exes {
			if !x.Completed {
				return fmt.Sprintf("execution %d did not complete", x.ID)
			}
			if bare && errors.Is(x.ResE, circuitbreaker.ErrOpen) && len(x.Invs) > 0 {
				return fmt.Sprintf("execution %d returned ErrOpen but the function was invoked", x.ID)
			}
		}
		// executions that ran entirely while the breaker was open must have been refused
		for _, e := range env.Events {
			if e.Policy == bi && e.Name == "open" {
				until := e.At + int64(spec.BDelay)
				if until < e.At {
					until = math.MaxInt64 // the delay never elapses
				}
				var next *Event
				for j := range env.Events {
					f := &env.Events[j]
					if f.Policy == bi && f.Name == "changed" && f.Tick > e.Tick {
						next = f
						break
					}
				}
				for _, x := range env.Exes {
					if x.StartTick > e.Tick && x.DoneAt < until && (next == nil || next.Tick > x.StartTick && next.At >= until) {
						if bare && !errors.Is(x.ResE, circuitbreaker.ErrOpen) {
							return fmt.Sprintf("execution %d ran from t=%d to t=%d while the breaker was open (opened t=%d, delay %v) and returned (%d,%v) instead of ErrOpen",
								x.ID, x.StartedAt, x.DoneAt, e.At, spec.BDelay, x.ResV, x.ResE)
						}
						if len(x.Invs) > 0 {
							return fmt.Sprintf("execution %d invoked the function while the breaker was open (opened t=%d, delay %v)", x.ID, e.At, spec.BDelay)
						}
					}
				}
			}
		}
		// probes at quiescence: every trial permit is back
		state := cb.State()
		if state != st.state {
			return fmt.Sprintf("breaker state %v differs from the state announced by its events %v", state, st.state)
		}
		switch state {
		case circuitbreaker.HalfOpenState:
			cap_ := halfOpenCapacity(spec)
			got := 0
			for i := 0; i < cap_+1; i++ {
				if cb.TryAcquirePermit() {
					got++
				}
			}
			if got != cap_ {
				return fmt.Sprintf("half-open breaker at quiescence grants %d permits, trial capacity is %d (a permit was lost or duplicated)", got, cap_)
			}
		case circuitbreaker.ClosedState:
			if !cb.TryAcquirePermit() {
				return "closed breaker refused a permit"
			}
		case circuitbreaker.OpenState:
			if vrt.Elapsed()-st.openAt < int64(spec.BDelay) && cb.TryAcquirePermit() {
				return "open breaker granted a permit before its delay elapsed"
			}
			if vrt.Elapsed()-st.openAt >= int64(spec.BDelay) {
				// the delay has elapsed and nothing is in flight: the next requests half-open it, and the new
				// half-open period has its full trial capacity
				cap_ := halfOpenCapacity(spec)
				got := 0
				for i := 0; i < cap_+1; i++ {
					if cb.TryAcquirePermit() {
						got++
					}
				}
				if got != cap_ {
					return fmt.Sprintf("breaker half-opened at quiescence after its delay grants %d permits, trial capacity is %d (a permit was lost or duplicated)", got, cap_)
				}
			}
		}
		return ""
	}
}

func c04Scenarios(tier string) []*Scenario {
	bound := 2
	if tier == "thorough" {
		bound = 3
	}
	const D = 100 * time.Nanosecond
	const Long = time.Hour
	var out []*Scenario
	add := func(name string, stack []Spec, bi int, exes []ExeSpec, bare bool, extra ...func(env *Env)) {
		st := &c04State{}
		out = append(out, &Scenario{
			Name:  fmt.Sprintf("C04/%s [%s] %s", name, stackStr(stack), exesStr(exes)),
			Bound: bound, Reduce: true,
			Body: func() {
				*st = c04State{}
				multiBody(stack, exes, MultiOpts{Reduce: true, Grace: 3 * D, Setup: c04Setup(bi, st), Extra: extra, Final: c04Final(bi, st, bare)})()
			},
		})
	}
	fail := func(d time.Duration) []Out { return []Out{{Err: E1, Dur: d}} }
	ok := func(d time.Duration) []Out { return []Out{{V: 1, Dur: d}} }
	CB := func(ft uint, delay time.Duration) Spec { return Spec{Kind: KBreaker, FT: ft, FC: ft, BDelay: delay} }

	// executions racing with the failure that opens the breaker
	add("open-race", []Spec{CB(1, Long)}, 0, []ExeSpec{{Script: fail(0)}, {Script: ok(0)}, {Script: ok(0)}}, true)
	add("open-race-dur", []Spec{CB(1, Long)}, 0, []ExeSpec{{Script: fail(10)}, {Script: ok(10)}, {Script: ok(5), StartAt: 10}}, true)
	add("open-race-maxdelay", []Spec{CB(1, math.MaxInt64)}, 0, []ExeSpec{{Script: fail(0)}, {Script: ok(0)}, {Script: ok(0), StartAt: 10}}, true)
	add("open-race-t2", []Spec{CB(2, Long)}, 0, []ExeSpec{{Script: fail(0)}, {Script: fail(0)}, {Script: ok(0)}}, true)
	add("open-race-async", []Spec{CB(1, Long)}, 0, []ExeSpec{{Script: fail(0), Async: true}, {Script: ok(0), Async: true}}, true)
	if tier == "thorough" {
		// five threads: two async runners, their callers and a third execution (a third of a minute on its own at bound 2)
		add("open-race-async3", []Spec{CB(1, Long)}, 0, []ExeSpec{{Script: fail(0), Async: true}, {Script: ok(0), Async: true}, {Script: ok(0)}}, true)
	}
	standalone := func(env *Env) {
		cb := env.Breakers[0]
		env.obs()
		t0 := env.Tick
		got := cb.TryAcquirePermit()
		env.obs()
		for _, e := range env.Events {
			if e.Name == "open" && e.Tick < t0 && got && env.Stack[0].BDelay == Long {
				vrt.Fail("standalone TryAcquirePermit succeeded after the breaker opened")
			}
		}
		if got {
			cb.RecordSuccess()
		}
		env.note(fmt.Sprintf("standalone=%v ", got))
	}
	add("open-race-standalone", []Spec{CB(1, Long)}, 0, []ExeSpec{{Script: fail(0)}, {Script: ok(0)}}, true, standalone)
	add("open-by-record", []Spec{CB(1, Long)}, 0, []ExeSpec{{Script: ok(0)}, {Script: ok(0)}}, true, func(env *Env) { env.Breakers[0].RecordFailure() })
	// half-open: at most capacity trials in progress
	HO := func(st, sc uint) Spec {
		return Spec{Kind: KBreaker, FT: 1, FC: 1, ST: st, SC: sc, BDelay: Long, Pre: "halfopen"}
	}
	add("halfopen-cap1", []Spec{HO(1, 1)}, 0, []ExeSpec{{Script: ok(10)}, {Script: ok(10)}, {Script: ok(10)}}, true)
	add("halfopen-cap1-fail", []Spec{HO(1, 1)}, 0, []ExeSpec{{Script: fail(10)}, {Script: ok(10)}}, true)
	add("halfopen-cap2", []Spec{HO(2, 2)}, 0, []ExeSpec{{Script: ok(10)}, {Script: ok(10)}, {Script: ok(10)}}, true)
	add("halfopen-cap2-mixed", []Spec{HO(1, 2)}, 0, []ExeSpec{{Script: fail(10)}, {Script: ok(10)}, {Script: fail(10)}}, true)
	add("halfopen-standalone", []Spec{HO(1, 1)}, 0, []ExeSpec{{Script: ok(10)}, {Script: ok(10)}}, true, func(env *Env) {
		if env.Breakers[0].TryAcquirePermit() {
			vrt.Sleep(5)
			env.Breakers[0].RecordFailure()
		}
	})
	// a trial still in flight when another trial's result re-opens (or closes) the breaker records its
	// result in the next state; the half-open period after that has its full capacity again
	HOD := func(st, sc uint) Spec {
		return Spec{Kind: KBreaker, FT: 1, FC: 1, ST: st, SC: sc, BDelay: D, Pre: "halfopen"}
	}
	add("halfopen-straggler-reopen", []Spec{HOD(2, 2)}, 0, []ExeSpec{{Script: ok(30)}, {Script: fail(5), StartAt: 1}}, true)
	add("halfopen-straggler-reopen-fail", []Spec{HOD(2, 2)}, 0, []ExeSpec{{Script: fail(30)}, {Script: fail(5), StartAt: 1}}, true)
	add("halfopen-straggler-next-period", []Spec{HOD(2, 2)}, 0, []ExeSpec{{Script: ok(30)}, {Script: fail(5), StartAt: 1}, {Script: ok(10), StartAt: D + 50}, {Script: ok(10), StartAt: D + 50}}, true)
	add("halfopen-straggler-close", []Spec{HOD(1, 2)}, 0, []ExeSpec{{Script: fail(30)}, {Script: ok(5), StartAt: 1}, {Script: fail(5), StartAt: 40}}, true)
	// a saturated half-open breaker whose thresholds survive single failures: executions it rejects free no permits
	add("halfopen-cap2-saturated", []Spec{{Kind: KBreaker, FT: 1, FC: 1, ST: 1, SC: 2, BDelay: Long, Pre: "halfopen"}}, 0,
		[]ExeSpec{{Script: ok(20)}, {Script: ok(20)}, {Script: ok(5), StartAt: 2}, {Script: ok(5), StartAt: 3}}, true)
	// a redundant manual HalfOpen() on a saturated half-open breaker hands out no second set of trial permits
	add("halfopen-redundant-manual", []Spec{HO(2, 2)}, 0, []ExeSpec{{Script: ok(20)}, {Script: ok(20)}, {Script: ok(5), StartAt: 8}, {Script: ok(5), StartAt: 8}}, true, func(env *Env) {
		vrt.Sleep(5)
		env.Breakers[0].HalfOpen()
	})
	// a success threshold combined with a larger failure-side capacity: the trial capacity is the success side's
	add("halfopen-cap-combined", []Spec{{Kind: KBreaker, FT: 3, FC: 5, ST: 2, SC: 2, BDelay: Long, Pre: "halfopen"}}, 0, []ExeSpec{{Script: ok(10)}, {Script: ok(10)}, {Script: ok(10)}, {Script: ok(10)}}, true)
	add("halfopen-cap-combined-ratio", []Spec{{Kind: KBreaker, FT: 4, FC: 4, ST: 1, SC: 2, BDelay: Long, Pre: "halfopen"}}, 0, []ExeSpec{{Script: fail(10)}, {Script: ok(10)}, {Script: ok(10)}}, true)
	// a trial that fails inside the breaker in a way the breaker's own conditions do not count (an inner
	// timeout, an exhausted inner retry) still gives its permit back
	hE2 := []Cond{{K: "errs", E: E2}}
	add("breaker(timeout)-trial-unhandled", []Spec{{Kind: KBreaker, FT: 1, FC: 1, ST: 2, SC: 2, BDelay: Long, Pre: "halfopen", Handle: hE2}, {Kind: KTimeout, Limit: 20}}, 0, []ExeSpec{{Script: []Out{{V: 1, Block: true}}}, {Script: []Out{{V: 1, Block: true}}, StartAt: 30}, {Script: ok(5), StartAt: 60}}, false)
	add("breaker(retry)-trial-unhandled", []Spec{{Kind: KBreaker, FT: 1, FC: 1, ST: 2, SC: 2, BDelay: Long, Pre: "halfopen", Handle: hE2}, {Kind: KRetry, MaxRetries: 1}}, 0, []ExeSpec{{Script: fail(5)}, {Script: fail(5), StartAt: 30}, {Script: ok(5), StartAt: 60}}, false)
	// open -> delay elapses exactly when the next executions arrive -> half-open
	add("delay-boundary", []Spec{CB(1, D)}, 0, []ExeSpec{{Script: fail(0)}, {Script: ok(10), StartAt: D - 1}, {Script: ok(10), StartAt: D}, {Script: ok(10), StartAt: D}}, true)
	add("delay-boundary-fail", []Spec{CB(1, D)}, 0, []ExeSpec{{Script: fail(0)}, {Script: fail(10), StartAt: D}, {Script: ok(10), StartAt: D}}, true)
	// trials that end by cancellation or timeout still give their permit back
	// a trial whose context is already cancelled when it arrives still returns its permit
	add("trial-precancelled", []Spec{HO(1, 1)}, 0, []ExeSpec{{Script: []Out{{Err: E1, Dur: 5, Coop: true}}, Ctx: "cancel", CancelAt: 0, StartAt: 5}, {Script: ok(5), StartAt: 30}}, true)
	add("trial-precancelled-retry", []Spec{{Kind: KRetry, MaxRetries: 1}, HO(2, 2)}, 1, []ExeSpec{{Script: []Out{{Err: E1, Dur: 5, Coop: true}}, Ctx: "cancel", CancelAt: 0, StartAt: 5}, {Script: ok(5), StartAt: 30}}, false)
	add("trial-cancelled", []Spec{HO(1, 1)}, 0, []ExeSpec{{Script: []Out{{Err: E1, Block: true}}, Ctx: "cancel", CancelAt: 20}, {Script: ok(5), StartAt: 30}}, true)
	add("trial-cancelled-ok", []Spec{HO(2, 2)}, 0, []ExeSpec{{Script: []Out{{V: 1, Block: true}}, Ctx: "cancel", CancelAt: 20}, {Script: ok(5), StartAt: 30}}, true)
	add("trial-async-cancel", []Spec{HO(1, 1)}, 0, []ExeSpec{{Script: []Out{{Err: E1, Block: true}}, Async: true, CancelAsync: true, CancelAt: 20}, {Script: ok(5), StartAt: 30}}, true)
	add("trial-deadline", []Spec{HO(1, 1)}, 0, []ExeSpec{{Script: []Out{{Err: E1, Block: true}}, Ctx: "deadline", CancelAt: 20}, {Script: ok(5), StartAt: 30}}, true)
	T := Spec{Kind: KTimeout, Limit: 20}
	add("timeout(breaker)-trial", []Spec{T, HO(1, 1)}, 1, []ExeSpec{{Script: []Out{{Err: E1, Block: true}}}, {Script: ok(5), StartAt: 30}}, false)
	add("timeout(breaker)-trial-uncoop", []Spec{T, HO(1, 1)}, 1, []ExeSpec{{Script: []Out{{Err: E1, Dur: 40}}}, {Script: ok(5), StartAt: 30}}, false)
	add("breaker(timeout)-trial", []Spec{HO(1, 1), T}, 0, []ExeSpec{{Script: []Out{{V: 1, Block: true}}}, {Script: ok(5), StartAt: 30}}, false)
	add("retry(breaker)", []Spec{{Kind: KRetry, MaxRetries: 2, Delay: 10}, CB(2, Long)}, 1, []ExeSpec{{Script: fail(0)}, {Script: fail(0)}}, false)
	add("retry(breaker)-halfopen", []Spec{{Kind: KRetry, MaxRetries: 1}, HO(2, 2)}, 1, []ExeSpec{{Script: []Out{{Err: E1, Dur: 5}, {V: 1, Dur: 5}}}, {Script: ok(5)}}, false)
	add("fallback(breaker)", []Spec{{Kind: KFallback, FbV: 9}, CB(1, Long)}, 1, []ExeSpec{{Script: fail(0)}, {Script: ok(0)}, {Script: ok(0)}}, false)
	add("fallback(breaker)-halfopen-cancel", []Spec{{Kind: KFallback, FbV: 9}, HO(1, 1)}, 1, []ExeSpec{{Script: []Out{{Err: E1, Block: true}}, Ctx: "cancel", CancelAt: 20}, {Script: ok(5), StartAt: 30}}, false)
	return out
}

func init() {
	scenarioSets["C04"] = c04Scenarios
	register(&CheckDef{
		Property:  "C04",
		Technique: "stateless schedule exploration (deviation-bounded, happens-before state cache) of concurrent executions and standalone callers through one real circuit breaker under a virtual clock",
		Rule: "one execution = one complete schedule of 2-4 harness threads through one breaker; the breaker's own state-change events and the function entries are observation points ordered by a logical clock; " +
			"distinct = distinct observation logs",
		Assume: []string{"sequentially consistent interleavings at synchronisation granularity", "the half-open bound is checked in scenarios where no execution admitted before the breaker opened is still in flight",
			"instrumentation by source rewriting preserves semantics (DESIGN.md §2)"},
		Units: func(tier string) []Unit {
			var us []Unit
			for _, sc := range c04Scenarios(tier) {
				us = append(us, scenarioUnit(sc))
			}
			return us
		},
	})
}
