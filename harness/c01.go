package main

// C01 — Policies compose as nested wrappers, in declaration order (PX).
// The same program space, with the event and statistics contracts switched on, serves C16 and C17.

import (
	"fmt"
	"strings"
	"time"

	"github.com/failsafe-go/failsafe-go/circuitbreaker"
	"github.com/failsafe-go/failsafe-go/timeout"
)

const (
	pxL = 100 * time.Nanosecond // timeout limit
	pxD = 50 * time.Nanosecond  // hedge delay
	pxT = 1000 * time.Nanosecond
)

// pxAlphabet is the configuration alphabet; sub marks the smaller alphabet used for deeper stacks.
func pxAlphabet() (all []Spec, sub []Spec) {
	retry := []Spec{
		{Kind: KRetry, MaxRetries: 0},
		{Kind: KRetry, MaxRetries: 1},
		{Kind: KRetry, MaxRetries: 2},
		{Kind: KRetry, MaxRetries: 2, ReturnLast: true},
		{Kind: KRetry, MaxRetries: 2, Handle: []Cond{{K: "errs", E: E1}}},
		{Kind: KRetry, MaxRetries: 2, Abort: []Cond{{K: "errs", E: E2}}},
		{Kind: KRetry, MaxRetries: 2, Handle: []Cond{{K: "result", V: 0}}, Delay: 10},
		{Kind: KRetry, MaxRetries: 1, Handle: []Cond{{K: "result", V: 0}}, ReturnLast: true},
		{Kind: KRetry, MaxRetries: 1, Handle: []Cond{{K: "errs", E: E1}, {K: "result", V: 0}}}, // an error it does not name, carrying the handled value, passes through
	}
	breaker := []Spec{
		{Kind: KBreaker, FT: 1, FC: 1, BDelay: time.Hour},
		{Kind: KBreaker, FT: 2, FC: 2, BDelay: time.Hour},
		{Kind: KBreaker, FT: 1, FC: 1, BDelay: time.Hour, Pre: "open"},
		{Kind: KBreaker, FT: 1, FC: 1, ST: 1, SC: 2, BDelay: time.Hour, Pre: "halfopen"},
		{Kind: KBreaker, FT: 2, FC: 2, BDelay: time.Hour, Handle: []Cond{{K: "result", V: 0}}},
		{Kind: KBreaker, FT: 1, FC: 1, BDelay: time.Hour, DelayByErr: true},
	}
	limiter := []Spec{
		{Kind: KLimiter, Permits: 1, Period: pxT},
		{Kind: KLimiter, Smooth: true, Interval: pxT},
		{Kind: KLimiter, Permits: 1, Period: pxT, LWait: 2 * pxT},
	}
	bulk := []Spec{
		{Kind: KBulkhead, Conc: 1},
		{Kind: KBulkhead, Conc: 1, Held: 1},
	}
	to := []Spec{{Kind: KTimeout, Limit: pxL}}
	hedge := []Spec{
		{Kind: KHedge, MaxHedges: 1, HDelay: pxD},
		{Kind: KHedge, MaxHedges: 2, HDelay: pxD, Cancel: []Cond{{K: "result", V: 1}}},
	}
	fb := []Spec{
		{Kind: KFallback, FbV: 9},
		{Kind: KFallback, FbV: 5, FbE: E3}, // an output that is itself a failure and carries a value as well
		{Kind: KFallback, FbV: 9, Handle: []Cond{{K: "errs", E: circuitbreaker.ErrOpen}, {K: "errs", E: timeout.ErrExceeded}}},
	}
	cache := []Spec{
		{Kind: KCache, Key: "a"},
		{Kind: KCache, Key: "a", Prepop: map[string]int{"a": 7}},
	}
	for _, g := range [][]Spec{retry, breaker, limiter, bulk, to, hedge, fb, cache} {
		all = append(all, g...)
	}
	sub = []Spec{retry[1], breaker[1], limiter[0], to[0], hedge[0], fb[0], cache[0], retry[3], bulk[1]}
	return
}

func pxScripts(maxLen int) [][]Out {
	base := []Out{{V: 1}, {V: 0}, {Err: E1}, {Err: E2}}
	var out [][]Out
	var rec func(cur []Out)
	rec = func(cur []Out) {
		if len(cur) > 0 {
			out = append(out, append([]Out{}, cur...))
		}
		if len(cur) == maxLen {
			return
		}
		for _, o := range base {
			rec(append(cur, o))
		}
	}
	rec(nil)
	return out
}

func hasTimed(stack []Spec) bool {
	for _, s := range stack {
		if s.Kind == KTimeout || s.Kind == KHedge {
			return true
		}
	}
	return false
}

// withDurations returns the duration variants of a script for stacks containing a timeout or hedge:
// all instantaneous, and the first invocation taking twice the time limit (cooperating / not).
func withDurations(sc []Out) [][]Out {
	slow := append([]Out{}, sc...)
	slow[0].Dur = 2 * pxL
	slowCoop := append([]Out{}, sc...)
	slowCoop[0].Dur, slowCoop[0].Coop = 2*pxL, true
	return [][]Out{sc, slow, slowCoop}
}

func pxStacks(tier string) [][]Spec {
	all, sub := pxAlphabet()
	var stacks [][]Spec
	for _, a := range all {
		stacks = append(stacks, []Spec{a})
		for _, b := range all {
			stacks = append(stacks, []Spec{a, b})
		}
	}
	deep := sub[:7] // quick: one configuration of each kind except bulkhead
	if tier == "thorough" {
		deep = all
	}
	for _, a := range deep {
		for _, b := range deep {
			for _, c := range deep {
				if tier != "thorough" || (a.Kind != b.Kind || b.Kind != c.Kind) {
					stacks = append(stacks, []Spec{a, b, c})
				}
			}
		}
	}
	if tier == "thorough" {
		for _, a := range sub {
			for _, b := range sub {
				for _, c := range sub {
					for _, d := range sub {
						stacks = append(stacks, []Spec{a, b, c, d})
					}
				}
			}
		}
	}
	return stacks
}

// pxPrograms enumerates the program space: stacks x scripts x histories x sync/async.
func pxPrograms(tier, checks string) []*Program {
	var progs []*Program
	for si, stack := range pxStacks(tier) {
		progs = append(progs, pxStackPrograms(tier, checks, si, stack)...)
	}
	return progs
}

var pxScriptCache = map[int][][]Out{}

// pxStackPrograms: the programs of one stack (si is its index in pxStacks(tier), used to spread the
// quick tier's sampling).
func pxStackPrograms(tier, checks string, si int, stack []Spec) []*Program {
	scriptLen := 2
	if tier == "thorough" && len(stack) <= 2 {
		scriptLen = 3 // deeper stacks keep scripts of up to two outcomes in both tiers: the product with 17 576 + 6 561 stacks is what a run can finish
	}
	scripts := pxScriptCache[scriptLen]
	if scripts == nil {
		scripts = pxScripts(scriptLen)
		pxScriptCache[scriptLen] = scripts
	}
	if len(stack) <= 2 || tier == "thorough" {
		// function outcomes that are the policies' own sentinel errors (propagated from a nested execution, say)
		scripts = append(append([][]Out{}, scripts...), []Out{{Err: timeout.ErrExceeded}}, []Out{{Err: circuitbreaker.ErrOpen}})
	}
	var progs []*Program
	deep := len(stack) >= 3
	nHedge := 0
	for _, sp := range stack {
		if sp.Kind == KHedge {
			nHedge++
		}
	}
	if nHedge >= 2 && tier != "thorough" {
		return nil // hedges nested in hedges under a third policy: thousands of schedules each, thorough tier only
	}
	for ci, sc := range scripts {
		if deep && tier != "thorough" && len(sc) > 1 && (ci+si)%3 != 0 {
			continue // quick: deeper stacks see every single-outcome script and a third of the longer ones
		}
		variants := [][]Out{sc}
		if hasTimed(stack) {
			variants = withDurations(sc)
			if tier != "thorough" {
				variants = variants[:2]
			}
			if strings.Contains(checks, "stats") && len(sc) >= 2 {
				// statistics: also the second invocation outlasting the time limit (the attempt that is cut
				// short then has a completed attempt before it)
				slow2 := append([]Out{}, sc...)
				slow2[1].Dur = 2 * pxL
				variants = append(variants, slow2)
			}
		}
		for vi, v := range variants {
			// history: the same script twice (stateful policies see their own effects), then a plain success
			hist := [][]Out{v, v}
			if tier == "thorough" || (si+ci+vi)%2 == 0 {
				hist = append(hist, []Out{{V: 1}})
			}
			async := []bool{false, (si+ci)%4 == 1, false}
			mbd := 2
			if tier == "thorough" {
				mbd = 3
			}
			if hasTimed(stack) && tier != "thorough" {
				hist = hist[:2]
			}
			if nHedge >= 1 && tier != "thorough" {
				for _, sp := range stack {
					if sp.Kind == KRetry && sp.MaxRetries >= 2 {
						hist = hist[:1] // three rounds of overlapping attempts: one execution is tens of thousands of schedules
					}
				}
			}
			progs = append(progs, &Program{Stack: stack, Scripts: hist, Async: async[:len(hist)], Checks: checks, MaxBoundedDepth: mbd})
		}
	}
	return progs
}

// pxUnits hands out the program space stack by stack: a unit is a run of consecutive stacks whose
// programs are only built inside the worker that runs it (the thorough space does not fit in memory
// seventeen times over). Stacks with a timeout or hedge (many schedules per program) come first and in
// smaller units, so that the workers finish together.
func pxUnits(prefix, tier, checks string, bound int) []Unit {
	stacks := pxStacks(tier)
	type ist struct {
		si    int
		stack []Spec
	}
	var timed, plain []ist
	for si, st := range stacks {
		if hasTimed(st) {
			timed = append(timed, ist{si, st})
		} else {
			plain = append(plain, ist{si, st})
		}
	}
	var us []Unit
	chunk := func(kind string, list []ist, n int) {
		for i := 0; i < len(list); i += n {
			part := list[i:min(i+n, len(list))]
			us = append(us, Unit{Name: fmt.Sprintf("%s/%s stacks[%d..%d] e.g. [%s]", prefix, kind, i, i+len(part)-1, stackStr(part[0].stack)), Run: func(dl time.Time) *Stats {
				tot := &Stats{BoundCompleted: 1 << 30, outcomes: map[string]int{}}
				for _, x := range part {
					scs := programScenarios(prefix, pxStackPrograms(tier, checks, x.si, x.stack), bound)
					st := chunkUnits(prefix, scs, len(scs)+1)
					if len(st) == 0 {
						continue
					}
					mergeStats(tot, st[0].Run(dl))
					if len(tot.Violations) > 3 {
						break
					}
				}
				if tot.BoundCompleted == 1<<30 {
					tot.BoundCompleted = 0
				}
				return tot
			}})
		}
	}
	nt, np := 3, 12
	if tier == "thorough" {
		nt, np = 2, 10
	}
	chunk("timed", timed, nt)
	chunk("plain", plain, np)
	return us
}

func init() {
	scenarioSets["C01"] = func(tier string) []*Scenario { return programScenarios("C01", pxPrograms(tier, "layers"), 1) }
	scenarioSets["C17"] = func(tier string) []*Scenario {
		scs := append(hedgeTimingScenarios("C17/hedge-timing", tier, "stats"), c17ListenerCancelScenarios(tier)...)
		return append(scs, programScenarios("C17", pxPrograms(tier, "layers,stats"), 1)...)
	}
	register(&CheckDef{
		Property:  "C01",
		Technique: "exhaustive enumeration of programs (policy stack x configuration x outcome script x history), each executed on the real code under the virtual runtime with a transparent probe between every two layers, and checked layer by layer against the documented behaviour of each policy",
		Rule: "a program = a stack of 1-3 (thorough 4) policy configurations from a 28-element alphabet covering all eight policies (with repetition) x an outcome script over {ok(1), ok(0), err(E1), err(E2)} of up to 2 outcomes (plus, for stacks of one or two policies, the single outcomes timeout.ErrExceeded and ErrOpen returned by the function itself) (thorough: 3 for stacks of one or two policies), with slow first invocations when a timeout or hedge is present, " +
			"x a history of 2-3 executions on the same instances, sync and async; stacks with timeout/hedge/async are explored over all schedules within deviation bound 1; distinct = distinct observation logs",
		Assume: []string{"probes are transparent user-defined policies (the library's own extension interface)", "concurrent applications of one retry layer under a hedge are outside the retry contract (C14)",
			"breakers in the alphabet are count based (time-windowed ones are covered by C03)"},
		Budget: map[string]time.Duration{"quick": 150 * time.Second, "thorough": 25 * time.Minute},
		Units:  func(tier string) []Unit { return pxUnits("C01", tier, "layers", 1) },
	})
	register(&CheckDef{
		Property:  "C16",
		Technique: "the C01 program enumeration with every listener of every builder registered, the event log of each execution checked against the event contract; plus schedule exploration of concurrent executions sharing listeners, of hedge attempts returning around the hedge delays, of async executions cancelled at every kind of instant, of breaker transitions made by several threads (connected event path ending in the breaker's state), and of cancellations landing while an execution waits for a bulkhead or limiter permit (refusal listeners only for refusals)",
		Rule: "same program space as C01, plus the hedge-timing family of C09 (attempts returning before, at and after the instants the hedge delays expire); the oracle is the event contract: one OnDone and one of OnSuccess/OnFailure; OnRetryScheduled/OnRetry per retry decided/started and their order; OnRetriesExceeded/OnAbort at most once and only in the matching situation; " +
			"every subset of the executor's OnDone/OnSuccess/OnFailure listeners x three stacks x outcomes x sync/async (a registered listener fires exactly when its situation occurred, whatever else is registered); " +
			"breaker events = the reference machine's transitions, specific then generic; OnFull/OnRateLimitExceeded/OnTimeoutExceeded/OnFallbackExecuted/OnHedge/cache events exactly when the rejection, timeout, fallback, hedge, hit, miss, store happened; policy OnSuccess/OnFailure per classified result",
		Assume: []string{"an abort-matching failure on the exhausting attempt may be reported as either story (one event)", "an execution without any cache key may or may not report a miss"},
		Budget: map[string]time.Duration{"quick": 150 * time.Second, "thorough": 25 * time.Minute},
		Units: func(tier string) []Unit {
			us := append(pxUnits("C16", tier, "layers,events", 1), c16ConcurrentUnits(tier)...)
			us = append(us, chunkUnits("C16", c16AsyncScenarios(tier), 10)...)
			us = append(us, chunkUnits("C16", c16StoryScenarios(tier), 4)...)
			us = append(us, chunkUnits("C16", c16ListenerSubsetScenarios(tier), 32)...)
			us = append(us, programUnits("C16", c16NestedMaxDurationPrograms(tier), 50, 1)...)
			return append(us, chunkUnits("C16", hedgeTimingScenarios("C16/hedge-timing", tier, "events"), 40)...)
		},
	})
	register(&CheckDef{
		Property:  "C17",
		Technique: "the C01 program enumeration with the execution statistics sampled at every point user code runs (function entry/exit, every listener, fallback, done event) and compared with the harness's own counts",
		Rule: "a cancellation landing while a retry policy's OnRetry listener runs (the listener cancels the caller's context, or is slow under an enclosing Timeout; sync/async): a counted retry is a started one; " +
			"same program space as C01, plus the hedge-timing family of C09 (attempts returning before, at and after the instants the hedge delays expire, every schedule within the bound); hedges started are counted from the goroutines the hedge policy actually spawned, not from its events; at every observation point Attempts = 1 + retries started + hedges started, Retries/Hedges equal the starts observed, Executions = invocations completed (exact without hedges, an upper bound during overlapping hedge attempts, exact at quiescence), " +
			"IsFirstAttempt/IsRetry/IsHedge agree, LastResult/LastError = outcome of the previous attempt",
		Assume: []string{"IsRetry is documented as Attempts > 1 and IsFirstAttempt as Attempts == 1 on the shared counter", "LastResult/LastError are compared at points where the observing attempt is not cancelled"},
		Budget: map[string]time.Duration{"quick": 150 * time.Second, "thorough": 25 * time.Minute},
		Units: func(tier string) []Unit {
			us := append(pxUnits("C17", tier, "layers,stats", 1), chunkUnits("C17", hedgeTimingScenarios("C17/hedge-timing", tier, "stats"), 40)...)
			return append(us, chunkUnits("C17", c17ListenerCancelScenarios(tier), 8)...)
		},
	})
}

var _ = fmt.Sprint
