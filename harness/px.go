package main

// PX: programs (policy stack x configuration x outcome scripts x history of executions), each
// executed on the real code under the virtual runtime and checked against the layer contracts
// and the reference state of the stateful policies.

import (
	"context"
	"fmt"
	"sort"
	"strings"
	"time"

	"github.com/failsafe-go/failsafe-go"
	"github.com/failsafe-go/failsafe-go/cachepolicy"
	"github.com/failsafe-go/failsafe-go/verifrt/vrt"
)

type Program struct {
	Stack   []Spec
	Scripts [][]Out // one script per execution of the history
	Async   []bool
	CtxKeys []any         // cache key supplied through the context, per execution (nil = none)
	Gap     time.Duration // virtual time between executions
	Checks  string        // which contract families to apply: "layers", "events", "stats" (comma separated)
	Extra   func(env *Env, rs *RefState, k int) string
	// stacks deeper than this are explored at deviation bound 0 (free choices only) even when they
	// contain a timeout or hedge
	MaxBoundedDepth int
	reduce          bool
}

func (p *Program) String() string {
	var ss []string
	for k, sc := range p.Scripts {
		x := scriptStr(sc)
		if k < len(p.Async) && p.Async[k] {
			x += " async"
		}
		if k < len(p.CtxKeys) && p.CtxKeys[k] != nil {
			x += fmt.Sprintf(" ctxkey=%#v", p.CtxKeys[k])
		}
		ss = append(ss, x)
	}
	return fmt.Sprintf("[%s] executions: %s", stackStr(p.Stack), strings.Join(ss, " ; "))
}

func (p *Program) Body() func() {
	return func() {
		env := NewEnv(p.Stack)
		env.Reduce = p.reduce
		env.ProbeStats = strings.Contains(p.Checks, "stats")
		rs := NewRefState(p.Stack)
		created := vrt.Elapsed()
		for k, script := range p.Scripts {
			env.ResetObs()
			rs.beginExecution()
			x := env.NewExe(script)
			ctx := context.Background()
			var ctxKey any
			if k < len(p.CtxKeys) && p.CtxKeys[k] != nil {
				ctxKey = p.CtxKeys[k]
				ctx = context.WithValue(ctx, cachepolicy.CacheKey, ctxKey)
			}
			ex := failsafe.NewExecutor[int](env.WithProbes()...).WithContext(ctx).
				OnDone(env.doneEv(-1, "done")).OnSuccess(env.doneEv(-1, "success")).OnFailure(env.doneEv(-1, "failure"))
			t0 := vrt.Elapsed()
			env.ExecStart = t0
			if k < len(p.Async) && p.Async[k] {
				env.ResV, env.ResE = ex.GetWithExecutionAsync(x.Fn).Get()
			} else {
				env.ResV, env.ResE = ex.GetWithExecution(x.Fn)
			}
			env.Completed, env.DoneAt = true, vrt.Elapsed()
			// losing hedge attempts and timed-out invocations may still be running: let them finish, so
			// that the next execution starts from a quiescent state and the logs do not mix
			// (an attempt spawned at the very instant the execution returned has not even started yet:
			// the first sleep lets it run)
			vrt.Sleep(int64(p.Gap) + 1)
			for i := 0; env.busy() && i < 100; i++ {
				vrt.Sleep(50)
			}
			vrt.Mark(fmt.Sprintf("#%d result=(%d,%s) t=%d invs=%d events=[%s]", k, env.ResV, errStr(env.ResE), env.DoneAt, len(env.Invs), env.eventSummary()))
			if msg := env.checkTop(); msg != "" {
				vrt.Fail(fmt.Sprintf("execution %d: %s", k, msg))
				return
			}
			if msg := env.checkAllLayers(rs, t0, created, ctxKey); msg != "" {
				vrt.Fail(fmt.Sprintf("execution %d: %s", k, msg))
				return
			}
			if strings.Contains(p.Checks, "events") {
				if msg := env.checkEvents(rs); msg != "" {
					vrt.Fail(fmt.Sprintf("execution %d: events: %s", k, msg))
					return
				}
			}
			if strings.Contains(p.Checks, "stats") {
				if msg := env.checkStats(); msg != "" {
					vrt.Fail(fmt.Sprintf("execution %d: statistics: %s", k, msg))
					return
				}
			}
			if msg := env.checkPublicState(rs); msg != "" {
				vrt.Fail(fmt.Sprintf("after execution %d: %s", k, msg))
				return
			}
			if p.Extra != nil {
				if msg := p.Extra(env, rs, k); msg != "" {
					vrt.Fail(fmt.Sprintf("execution %d: %s", k, msg))
					return
				}
			}
		}
	}
}

// checkPublicState compares the public state of the stateful policies with the reference.
func (env *Env) checkPublicState(rs *RefState) string {
	for i, s := range env.Stack {
		switch s.Kind {
		case KBreaker:
			if rs.Unsynced[i] {
				continue
			}
			m := rs.Breakers[i]
			// an open breaker whose delay has elapsed half-opens only on the next request: State() still says open
			if got := env.Breakers[i].State(); got != m.state {
				return fmt.Sprintf("breaker %d is %v, the reference says %v", i, got, m.state)
			}
		case KBulkhead:
			bh := env.Bulks[i]
			free := 0
			for k := 0; k < int(s.Conc)+1; k++ {
				if bh.TryAcquirePermit() {
					free++
				}
			}
			for k := 0; k < free; k++ {
				bh.ReleasePermit()
			}
			if free != int(s.Conc)-int(s.Held) {
				return fmt.Sprintf("bulkhead %d has %d free permits, want %d", i, free, int(s.Conc)-int(s.Held))
			}
		case KCache:
			got := env.Caches[i].M
			want := rs.Caches[i]
			if len(got) != len(want) {
				return fmt.Sprintf("cache %d holds %v, the reference says %v", i, got, want)
			}
			for k, v := range want {
				if gv, ok := got[k]; !ok || gv != v {
					return fmt.Sprintf("cache %d holds %v, the reference says %v", i, got, want)
				}
			}
		}
	}
	return ""
}

// programUnits groups programs into units.
func programUnits(prefix string, progs []*Program, per int, bound int) []Unit {
	// expensive programs (timeout / hedge: many schedules) first and in small units, so that the
	// workers finish together
	sort.SliceStable(progs, func(i, j int) bool { return hasTimed(progs[i].Stack) && !hasTimed(progs[j].Stack) })
	nTimed := 0
	for _, p := range progs {
		if hasTimed(p.Stack) {
			nTimed++
		}
	}
	var scs []*Scenario
	for _, p := range progs {
		b := 0
		for _, s := range p.Stack {
			if (s.Kind == KTimeout || s.Kind == KHedge) && len(p.Stack) <= p.MaxBoundedDepth {
				b = bound
			}
		}
		// async alone (runner thread + waiting caller) is covered at bound 0: the choice of who runs is free whenever the caller blocks
		p.reduce = hasTimed(p.Stack)
		scs = append(scs, &Scenario{Name: prefix + "/" + p.String(), Bound: b, Reduce: p.reduce, Body: p.Body()})
	}
	return append(chunkUnits(prefix+"/timed", scs[:nTimed], max(per/8, 10)), chunkUnits(prefix, scs[nTimed:], per)...)
}

var _ = sort.Strings

// programScenarios makes the programs addressable by name for `vcheck replay` / `explore`.
func programScenarios(prefix string, progs []*Program, bound int) []*Scenario {
	var scs []*Scenario
	for _, p := range progs {
		b := 0
		for _, s := range p.Stack {
			if (s.Kind == KTimeout || s.Kind == KHedge) && len(p.Stack) <= p.MaxBoundedDepth {
				b = bound
			}
		}
		p.reduce = hasTimed(p.Stack)
		scs = append(scs, &Scenario{Name: prefix + "/" + p.String(), Bound: b, Reduce: p.reduce, Body: p.Body()})
	}
	return scs
}
