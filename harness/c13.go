package main

// C13 — Retry delays stay within their configured envelope (PX; random draws are enumerated choice points).

import (
	"context"
	"fmt"
	"math"
	"time"

	"github.com/failsafe-go/failsafe-go"
	"github.com/failsafe-go/failsafe-go/retrypolicy"
	"github.com/failsafe-go/failsafe-go/verifrt/vcontext"
	"github.com/failsafe-go/failsafe-go/verifrt/vrand"
	"github.com/failsafe-go/failsafe-go/verifrt/vrt"
)

type c13Config struct {
	kind     string // "fixed", "backoff", "random", "fn-const", "fn-minus1", "fn-negative", "fn-alternating"
	d        time.Duration
	maxDelay time.Duration
	factor   float32
	jitter   time.Duration
	jitterF  float32
	maxDur   time.Duration
	fnDur    time.Duration // how long each attempt takes
	ctxDl    time.Duration // the caller's context has this deadline (0 = none)
	lsnDur   time.Duration // the OnRetryScheduled listener takes this long: the delay is waited after it has returned
	draws    int
}

func (c c13Config) String() string {
	s := fmt.Sprintf("%s d=%v", c.kind, c.d)
	if c.kind == "backoff" {
		s += fmt.Sprintf(" max=%v factor=%v", c.maxDelay, c.factor)
	}
	if c.jitter != 0 {
		s += fmt.Sprintf(" jitter=%v", c.jitter)
	}
	if c.jitterF != 0 {
		s += fmt.Sprintf(" jitterFactor=%v", c.jitterF)
	}
	if c.maxDur != 0 {
		s += fmt.Sprintf(" maxDuration=%v", c.maxDur)
	}
	if c.fnDur != 0 {
		s += fmt.Sprintf(" attempt=%v", c.fnDur)
	}
	if c.ctxDl != 0 {
		s += fmt.Sprintf(" contextDeadline=%v", c.ctxDl)
	}
	if c.lsnDur != 0 {
		s += fmt.Sprintf(" slowScheduledListener=%v", c.lsnDur)
	}
	return s
}

const c13Retries = 8

func (c c13Config) run() {
	vrand.MaxEnumerated = c.draws
	b := retrypolicy.Builder[int]().WithMaxRetries(c13Retries)
	fnCalls := 0
	switch c.kind {
	case "fixed":
		b = b.WithDelay(c.d)
	case "backoff":
		b = b.WithBackoffFactor(c.d, c.maxDelay, c.factor)
	case "random":
		b = b.WithRandomDelay(c.d, 4*c.d)
	case "fixed-after-backoff-random": // the last delay setting counts: a fixed delay
		b = b.WithBackoff(c.d, 16*c.d).WithRandomDelay(c.d, 4*c.d).WithDelay(c.d)
	case "random-after-backoff":
		b = b.WithBackoff(c.d, 16*c.d).WithRandomDelay(c.d, 4*c.d)
	case "fn-const":
		b = b.WithDelay(c.d).WithDelayFunc(func(failsafe.ExecutionAttempt[int]) time.Duration { fnCalls++; return 3 * c.d })
	case "fn-over-max": // a delay function's value is used as it is, also above the backoff's maxDelay
		b = b.WithBackoff(c.d, 2*c.d).WithDelayFunc(func(failsafe.ExecutionAttempt[int]) time.Duration { fnCalls++; return 5 * c.d })
	case "fn-minus1":
		b = b.WithDelay(c.d).WithDelayFunc(func(failsafe.ExecutionAttempt[int]) time.Duration { fnCalls++; return -1 })
	case "fn-negative":
		b = b.WithDelay(c.d).WithDelayFunc(func(failsafe.ExecutionAttempt[int]) time.Duration { fnCalls++; return -5 })
	case "fn-alternating":
		b = b.WithBackoff(c.d, 16*c.d).WithDelayFunc(func(failsafe.ExecutionAttempt[int]) time.Duration {
			fnCalls++
			if fnCalls%2 == 0 {
				return 3 * c.d
			}
			return -1
		})
	}
	if c.jitter != 0 {
		b = b.WithJitter(c.jitter)
	}
	if c.jitterF != 0 {
		b = b.WithJitterFactor(c.jitterF)
	}
	if c.maxDur != 0 {
		b = b.WithMaxDuration(c.maxDur)
	}
	type sched struct {
		delay   time.Duration
		at      int64
		elapsed time.Duration
	}
	var scheds []sched
	var starts []int64
	t0 := vrt.Elapsed()
	b = b.OnRetryScheduled(func(e failsafe.ExecutionScheduledEvent[int]) {
		el := time.Duration(vrt.Elapsed() - t0)
		if c.lsnDur > 0 {
			vrt.Sleep(int64(c.lsnDur))
		}
		scheds = append(scheds, sched{e.Delay, vrt.Elapsed(), el})
	})
	ex := failsafe.NewExecutor[int](b.Build())
	if c.ctxDl != 0 {
		ctx, cancel := vcontext.WithDeadline(context.Background(), time.Unix(0, vrt.Now()).Add(c.ctxDl))
		defer cancel()
		ex = ex.WithContext(ctx)
	}
	ex.Get(func() (int, error) {
		starts = append(starts, vrt.Elapsed())
		if c.fnDur > 0 {
			vrt.Sleep(int64(c.fnDur))
		}
		return 0, E1
	})
	vrt.Mark(fmt.Sprint(len(scheds), scheds))
	// the un-jittered value prescribed for the k-th scheduled delay
	// float32 rounding of each multiplication plus the truncation to whole nanoseconds after each
	// backoff step (at most 1ns per step, amplified by the later multiplications)
	tol := func(x float64, mults int) float64 {
		f := math.Max(float64(c.factor), 2)
		trunc := (math.Pow(f, float64(mults)) - 1) / (f - 1)
		return math.Abs(x)*float64(mults+1)*math.Pow(2, -21) + math.Min(trunc, math.Abs(x)/100) + 1
	}
	backoffK := -1
	for k, s := range scheds {
		if s.delay < 0 {
			vrt.Fail(fmt.Sprintf("scheduled delay %d is negative: %v", k, s.delay))
			return
		}
		var base float64
		mults := 0
		lo, hi := 0.0, 0.0
		isRange := false
		fnVal := time.Duration(-1)
		switch c.kind {
		case "fn-const":
			fnVal = 3 * c.d
		case "fn-over-max":
			fnVal = 5 * c.d
		case "fn-negative":
			fnVal = -5
		case "fn-alternating":
			if (k+1)%2 == 0 {
				fnVal = 3 * c.d
			}
		}
		switch {
		case fnVal != -1:
			base = float64(fnVal)
		case c.kind == "fixed" || c.kind == "fn-minus1" || c.kind == "fixed-after-backoff-random":
			base = float64(c.d)
		case c.kind == "backoff" || c.kind == "fn-alternating":
			backoffK++
			f, md := float64(c.factor), float64(c.maxDelay)
			if c.kind == "fn-alternating" {
				f, md = 2, float64(16*c.d)
			}
			base = math.Min(float64(c.d)*math.Pow(f, float64(backoffK)), md)
			mults = backoffK
		case c.kind == "random" || c.kind == "random-after-backoff":
			isRange, lo, hi = true, float64(c.d), float64(4*c.d)
		}
		// jitter envelope
		slack := 0.0
		switch {
		case c.jitter != 0:
			slack = float64(c.jitter)
		case c.jitterF != 0:
			ref := base
			if isRange {
				ref = hi
			}
			slack = float64(c.jitterF)*math.Abs(ref) + tol(ref, 2)
		}
		if fnVal == 0 || (isRange && false) {
			slack = 0
		}
		// remaining max duration
		cap_ := math.Inf(1)
		if c.maxDur != 0 {
			cap_ = math.Max(0, float64(c.maxDur-s.elapsed))
		}
		got := float64(s.delay)
		if got > cap_ {
			vrt.Fail(fmt.Sprintf("scheduled delay %d = %v extends past the remaining max duration %v (elapsed %v of %v)", k, s.delay, time.Duration(cap_), s.elapsed, c.maxDur))
			return
		}
		if isRange {
			if got > math.Min(hi+slack, cap_)+1 || (got < lo-slack-1 && got < cap_) {
				vrt.Fail(fmt.Sprintf("scheduled delay %d = %v is outside [%v, %v] widened by the jitter %v", k, s.delay, time.Duration(lo), time.Duration(hi), time.Duration(slack)))
				return
			}
		} else {
			want := math.Max(0, base)
			upper := math.Min(want+slack+tol(base, mults), cap_+0.5)
			lower := math.Min(math.Max(0, want-slack-tol(base, mults)), cap_)
			if got > upper || got < lower-0.5 {
				vrt.Fail(fmt.Sprintf("scheduled delay %d = %v; the un-jittered value is %v, jitter allows +-%v, remaining max duration %v", k, s.delay, time.Duration(want), time.Duration(slack), time.Duration(cap_)))
				return
			}
			if (c.kind == "backoff") && c.jitter == 0 && c.jitterF == 0 && math.IsInf(cap_, 1) {
				if got > float64(c.maxDelay) {
					vrt.Fail(fmt.Sprintf("backoff delay %d = %v exceeds maxDelay %v", k, s.delay, c.maxDelay))
					return
				}
				if k > 0 && s.delay < scheds[k-1].delay {
					vrt.Fail(fmt.Sprintf("backoff delay decreased: %v after %v", s.delay, scheds[k-1].delay))
					return
				}
			}
		}
		// the next attempt does not start before the delay has elapsed
		if k+1 < len(starts) {
			if gap := starts[k+1] - s.at; gap < int64(s.delay) {
				vrt.Fail(fmt.Sprintf("attempt %d started %v after OnRetryScheduled, the scheduled delay was %v", k+1, time.Duration(gap), s.delay))
				return
			}
		}
	}
	if c.maxDur == 0 && c.ctxDl == 0 && len(scheds) != c13Retries {
		vrt.Fail(fmt.Sprintf("%d retries scheduled, want %d", len(scheds), c13Retries))
	}
}

func c13Configs(tier string) []c13Config {
	var out []c13Config
	mags := []time.Duration{time.Microsecond, time.Millisecond, time.Second, time.Minute, time.Hour, 7*time.Hour + 1}
	draws := 3
	if tier == "thorough" {
		draws = 7
	}
	type kc struct {
		kind   string
		factor float32
		mdMul  time.Duration
	}
	var kinds []kc
	kinds = append(kinds, kc{"fixed-after-backoff-random", 0, 0}, kc{"random-after-backoff", 0, 0})
	kinds = append(kinds, kc{"fixed", 0, 0}, kc{"random", 0, 0}, kc{"fn-const", 0, 0}, kc{"fn-over-max", 0, 0}, kc{"fn-minus1", 0, 0}, kc{"fn-negative", 0, 0}, kc{"fn-alternating", 0, 0})
	for _, f := range []float32{1.5, 2, 10} {
		for _, m := range []time.Duration{4, 1000} {
			kinds = append(kinds, kc{"backoff", f, m})
		}
	}
	for _, k := range kinds {
		for _, d := range mags {
			type jc struct {
				j  time.Duration
				jf float32
			}
			if k.kind == "fixed" || k.kind == "backoff" && k.factor == 2 && k.mdMul == 1000 {
				// the caller's context has a deadline of its own: before the first delay ends, and in the middle of a later one
				for _, dl := range []time.Duration{d / 3, d*5/2 + 1} {
					out = append(out, c13Config{kind: k.kind, d: d, factor: k.factor, maxDelay: k.mdMul * d, ctxDl: dl, draws: draws})
				}
			}
			if k.kind == "fixed" || k.kind == "backoff" && k.factor == 2 && k.mdMul == 1000 {
				// a listener that takes a while: the delay starts when it has returned
				for _, ld := range []time.Duration{d / 2, 2 * d} {
					out = append(out, c13Config{kind: k.kind, d: d, factor: k.factor, maxDelay: k.mdMul * d, lsnDur: ld, draws: draws})
				}
			}
			jitters := []jc{{0, 0}, {d / 10, 0}, {d, 0}, {2 * d, 0}, {0, 0.1}, {0, 0.25}, {0, 1}}
			for _, j := range jitters {
				for _, md := range []time.Duration{0, d*5/2 + 1, 1000 * time.Hour} {
					c := c13Config{kind: k.kind, d: d, factor: k.factor, maxDelay: k.mdMul * d, jitter: j.j, jitterF: j.jf, maxDur: md, draws: draws}
					out = append(out, c)
					if md != 0 && j.j == 0 && j.jf == 0 {
						c.fnDur = d / 2
						out = append(out, c)
					}
				}
			}
		}
	}
	return out
}

func c13Scenarios(tier string) []*Scenario {
	var out []*Scenario
	for _, c := range c13Configs(tier) {
		c := c
		out = append(out, &Scenario{Name: "C13/" + c.String(), Bound: 0, Body: c.run})
	}
	return out
}

func init() {
	scenarioSets["C13"] = c13Scenarios
	register(&CheckDef{
		Property:  "C13",
		Technique: "exhaustive enumeration of delay configurations, each executed on the real retry policy under the virtual clock with every random draw an enumerated choice point",
		Rule: "a program = delay kind (fixed, backoff x factor x maxDelay, random range, five delay functions (one answering more than the backoff's maxDelay), two builder sequences that replace an earlier delay setting) x magnitude (1us .. 7h+1ns) x jitter (none, three durations, three factors) x max duration (none, 2.5 delays, huge) x attempt duration, plus a caller context whose own deadline falls inside the first or a later delay, and an OnRetryScheduled listener that takes half a delay / two delays (the delay is waited after it has returned), eight consecutive failures; " +
			"each draw of the first 3 (quick) / 5 (thorough) is enumerated over {0, 0.5, 1-2^-53}; distinct = distinct sequences of scheduled delays",
		Assume: []string{"the jitter and random-range formulas are monotone in the draw, so the extreme draws bound every draw", "float32 arithmetic: equality with the real-number formula up to 2^-21 relative error per multiplication",
			"configurations the builder documentation gives no meaning to (maxDelay < delay, delayMin > delayMax, factor < 1) are outside the alphabet"},
		Units: func(tier string) []Unit { return chunkUnits("C13", c13Scenarios(tier), 60) },
	})
}
