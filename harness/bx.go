package main

// BX: explicit-state breadth-first search over the operation histories of one real object.
// A state is the history that reaches it; its successors are computed by replaying the history
// on a fresh real object (live Go objects cannot be cloned) plus one operation. States are
// de-duplicated on an exact dump of the object, the virtual clock and the reference model's state.

import (
	"crypto/sha256"
	"fmt"
	"strings"
	"time"

	"github.com/failsafe-go/failsafe-go/verifrt/vrt"
)

// BXSystem describes one configuration of an object under test together with its reference model.
type BXSystem struct {
	Name string
	// New builds a fresh real object and a fresh model (called inside a vrt execution).
	New func() BXRun
	// Ops is the operation alphabet (labels); Enabled filters by model state.
	Ops   []string
	Epoch int64
}

// BXRun is one (object, model) pair being driven in lockstep.
type BXRun interface {
	// Apply performs op on the real object and on the model and compares every observable;
	// it returns a non-empty message on disagreement.
	Apply(op string) string
	// Enabled reports whether op belongs to the alphabet in the current model state.
	Enabled(op string) bool
	// Key is the canonical state: exact dump of the real object + model state.
	Key() string
	// Probe compares the pure observers (no state change) of object and model.
	Probe() string
}

type bxNode struct {
	hist []uint8
}

func BXExplore(sys *BXSystem, depth int, deadline time.Time) *Stats {
	st := &Stats{Scenario: sys.Name, BoundAsked: depth, BoundCompleted: -1, outcomes: map[string]int{}}
	seen := map[[32]byte]struct{}{}
	frontier := []bxNode{{}}
	// run replays hist and then tries every enabled op; returns successor keys
	type succ struct {
		op  uint8
		key [32]byte
	}
	expand := func(n bxNode) (succs []succ, viol string, violHist []string) {
		// one execution per (history, op): replay + op
		for oi := range sys.Ops {
			var key string
			var msg string
			enabled := true
			r := vrt.Execute(vrt.Options{Epoch: sys.Epoch}, func() {
				run := sys.New()
				for _, h := range n.hist {
					if m := run.Apply(sys.Ops[h]); m != "" {
						msg = "replay diverged: " + m
						return
					}
				}
				if !run.Enabled(sys.Ops[oi]) {
					enabled = false
					return
				}
				if m := run.Apply(sys.Ops[oi]); m != "" {
					msg = m
					return
				}
				if m := run.Probe(); m != "" {
					msg = m
					return
				}
				key = run.Key()
			})
			st.Steps += len(n.hist) + 1
			if !enabled {
				continue
			}
			st.Executions++
			if r.Panic != "" {
				msg = "panic: " + r.Panic
			} else if r.Deadlock != "" {
				msg = "deadlock: " + r.Deadlock
			}
			if msg != "" {
				var hs []string
				for _, h := range n.hist {
					hs = append(hs, sys.Ops[h])
				}
				hs = append(hs, sys.Ops[oi])
				return nil, msg, hs
			}
			succs = append(succs, succ{uint8(oi), sha256.Sum256([]byte(key))})
		}
		return
	}
	for d := 0; d < depth; d++ {
		var next []bxNode
		for i, n := range frontier {
			if !deadline.IsZero() && i%16 == 0 && time.Now().After(deadline) {
				st.Capped = true
				st.Outcomes = len(seen)
				st.States = len(seen)
				return st
			}
			succs, viol, hist := expand(n)
			if viol != "" {
				v := Violation{Scenario: sys.Name, Message: viol + "\n  history: " + strings.Join(hist, " ; "), Log: hist}
				v.Sig = signature(sys.Name, viol)
				st.Violations = append(st.Violations, v)
				st.Outcomes = len(seen)
				st.States = len(seen)
				return st
			}
			for _, s := range succs {
				st.Points++
				if _, ok := seen[s.key]; ok {
					continue
				}
				seen[s.key] = struct{}{}
				h := make([]uint8, len(n.hist)+1)
				copy(h, n.hist)
				h[len(n.hist)] = s.op
				next = append(next, bxNode{h})
			}
		}
		frontier = next
		st.BoundCompleted = d + 1
		st.PerBound = append(st.PerBound, len(next))
		if len(next) == 0 {
			break
		}
		if st.Sample == nil && len(next) > 0 {
			for _, h := range next[len(next)/2].hist {
				st.Sample = append(st.Sample, sys.Ops[h])
			}
		}
	}
	st.Outcomes = len(seen)
	st.States = len(seen)
	return st
}

func bxUnit(sys *BXSystem, depth int) Unit {
	return Unit{Name: sys.Name, Run: func(dl time.Time) *Stats {
		st := BXExplore(sys, depth, dl)
		st.Nontrivial = st.States
		return st
	}}
}

var _ = fmt.Sprint
