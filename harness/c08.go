package main

// C08 — Cancellation stops the execution promptly and is reported as its cause (SX).

import (
	"context"
	"errors"
	"fmt"
	"sync"
	"time"

	"github.com/failsafe-go/failsafe-go"
	"github.com/failsafe-go/failsafe-go/timeout"
	"github.com/failsafe-go/failsafe-go/verifrt/vrt"
)

// plainOutcome runs the program once without any cancellation (default schedule) and returns what
// the caller gets: the "result the execution completes with" when nobody cancels it.
func plainOutcome(stack []Spec, script []Out) (v int, err error, invs int) {
	v, err, invs, _ = plainOutcomeT(stack, script)
	return
}

// plainOutcomeT also returns how long the uncancelled execution takes.
func plainOutcomeT(stack []Spec, script []Out) (v int, err error, invs int, took int64) {
	r := vrt.Execute(vrt.Options{}, func() {
		env := NewEnv(stack)
		env.Script = script
		env.Quiet = true
		t0 := vrt.Elapsed()
		env.runSync(false)
		v, err, invs, took = env.ResV, env.ResE, len(env.Invs), vrt.Elapsed()-t0
	})
	if r.Panic != "" || r.Deadlock != "" {
		panic("plainOutcome: " + r.Panic + r.Deadlock)
	}
	return
}

var errNever = errors.New("never completes")

type c08Case struct {
	name   string
	stack  []Spec
	script []Out
	source string // "ctx", "deadline", "async", "timeout"
	at     time.Duration
	fbIn   bool // a fallback is enclosed by the cancellation
	once   sync.Once
	pv     int
	pe     error
	pinvs  int
	ptook  int64 // how long the uncancelled execution takes
}

func (c *c08Case) final(env *Env) string {
	c.once.Do(func() {})
	x := env.Exes[0]
	if !x.Completed {
		return "execution did not complete"
	}
	var cause error
	var tc int64
	switch c.source {
	case "ctx", "ctxcause":
		cause, tc = context.Canceled, x.CancelTime
	case "deadline", "deadlinecause":
		cause, tc = context.DeadlineExceeded, int64(c.at)
	case "async":
		cause, tc = failsafe.ErrExecutionCanceled, x.CancelTime
	case "timeout":
		cause = timeout.ErrExceeded
		tc = -1
		for _, e := range env.Events {
			if e.Name == "timeout" {
				tc = e.At
				break
			}
		}
		if tc == -1 {
			tc = 1 << 60 // the timeout never fired
		}
	}
	isCause := x.ResE != nil && errors.Is(x.ResE, cause)
	isPlain := x.ResV == c.pv && x.ResE == c.pe
	if c.source == "timeout" {
		// the Timeout's ErrExceeded is processed by the policies outside it: compare with the plain
		// run, which contains the same Timeout (the timeout is part of the program here)
		if !isPlain {
			return fmt.Sprintf("caller got (%d,%v); the program's outcome is (%d,%v)", x.ResV, x.ResE, c.pv, c.pe)
		}
	} else if x.DoneAt >= tc && !(x.DoneBeforeCancel) {
		if !isCause && !isPlain {
			return fmt.Sprintf("caller got (%d,%v) after cancellation at t=%d; want %v or the completed result (%d,%v)", x.ResV, x.ResE, tc, cause, c.pv, c.pe)
		}
		if isPlain && !isCause && x.DoneAt-x.StartedAt < c.ptook {
			return fmt.Sprintf("caller got (%d,%v) %d after the start; the execution had not completed with it (uncancelled it takes %d), and it is not the cause %v", x.ResV, x.ResE, x.DoneAt-x.StartedAt, c.ptook, cause)
		}
		if isPlain && !isCause && len(x.Invs) != c.pinvs {
			return fmt.Sprintf("caller got the uncancelled outcome (%d,%v) but only %d of its %d invocations ran", x.ResV, x.ResE, len(x.Invs), c.pinvs)
		}
	} else if !isPlain && !isCause {
		return fmt.Sprintf("caller got (%d,%v); the program's outcome is (%d,%v)", x.ResV, x.ResE, c.pv, c.pe)
	}
	// at most one attempt starts after the cancellation
	late := 0
	for _, inv := range x.Invs {
		if inv.CanceledAtStart {
			late++
		}
	}
	if late > 1 {
		return fmt.Sprintf("%d attempts were started after the cancellation", late)
	}
	// promptness: with a cooperating function nothing waits out a delay after the cancellation
	if x.DoneAt > tc && tc >= 0 && !isPlain {
		return fmt.Sprintf("cancelled at t=%d but the execution completed at t=%d (it waited out a delay)", tc, x.DoneAt)
	}
	if x.DoneAt > tc && isPlain && !isCause && c.source != "timeout" {
		return fmt.Sprintf("cancelled at t=%d but the execution ran on to its normal outcome at t=%d", tc, x.DoneAt)
	}
	// a fallback enclosed by the cancellation is not applied after it
	if c.fbIn && c.source != "timeout" {
		for _, e := range env.Events {
			if e.Name == "fbcall" && ((x.CancelTick1 > 0 && e.Tick > x.CancelTick1) || e.At > tc) {
				return "fallback invoked after the cancellation that encloses it"
			}
		}
		if !isPlain && !isCause {
			return "fallback output returned for a cancelled execution"
		}
	}
	return ""
}

func c08Scenarios(tier string) []*Scenario {
	bound := 2
	if tier == "thorough" {
		bound = 4
	}
	const R = 40 * time.Nanosecond // retry delay
	var out []*Scenario
	add := func(c *c08Case) {
		es := ExeSpec{Script: c.script}
		switch c.source {
		case "ctx":
			es.Ctx, es.CancelAt = "cancel", c.at
		case "deadline":
			es.Ctx, es.CancelAt = "deadline", c.at
		case "ctxcause":
			es.Ctx, es.CancelAt = "cancelcause", c.at
		case "deadlinecause":
			es.Ctx, es.CancelAt = "deadlinecause", c.at
		case "async":
			es.Async, es.CancelAsync, es.CancelAt = true, true, c.at
		}
		for _, s := range c.stack {
			if s.Kind == KFallback {
				c.fbIn = c.source != "timeout"
			}
		}
		_ = errCustomCause
		out = append(out, &Scenario{
			Name:  fmt.Sprintf("C08/%s/%s@%d [%s] %s", c.name, c.source, int64(c.at), stackStr(c.stack), scriptStr(c.script)),
			Bound: bound, Reduce: true,
			Body: func() {
				c.once.Do(func() {})
				multiBody(c.stack, []ExeSpec{es}, MultiOpts{Reduce: true, Grace: 10 * R, Final: c.final})()
			},
		})
	}
	// the plain outcomes are computed once per worker, before exploration starts
	prepare := func(c *c08Case) *c08Case {
		for _, o := range c.script {
			if o.Block {
				c.pv, c.pe, c.pinvs = -999, errNever, -1 // never completes unless cancelled
				return c
			}
		}
		c.pv, c.pe, c.pinvs, c.ptook = plainOutcomeT(c.stack, c.script)
		return c
	}
	coop := func(d time.Duration, err error, v int) Out { return Out{V: v, Err: err, Dur: d, Coop: true} }
	retry := Spec{Kind: KRetry, MaxRetries: 3, Delay: R}
	retry0 := Spec{Kind: KRetry, MaxRetries: 3}
	fb := Spec{Kind: KFallback, FbV: 9}
	hedge := Spec{Kind: KHedge, MaxHedges: 2, HDelay: R, Cancel: []Cond{{K: "result", V: 1}}}
	failing := []Out{coop(20, E1, 0), coop(20, E1, 0), coop(20, E1, 0), coop(20, nil, 1)}
	blocking := []Out{{Err: E1, Block: true}}
	sources := []string{"ctx", "async", "deadline"}
	// cancellation instants: before the first attempt (0), inside an attempt (10), exactly at its end
	// (20), inside the delay (40), exactly when the delay ends (60), inside the second attempt (70)
	for _, src := range sources {
		instants := []time.Duration{0, 10, 20, 40, 60, 70}
		if tier == "thorough" {
			instants = []time.Duration{0, 1, 10, 19, 20, 21, 40, 59, 60, 61, 70, 80, 100, 120, 140}
		}
		for _, at := range instants {
			if src == "deadline" && at == 0 {
				continue
			}
			add(prepare(&c08Case{name: "retry", stack: []Spec{retry}, script: failing, source: src, at: at}))
		}
		// the cancellation lands inside the last permitted attempt, which then fails with its own error
		retry1 := Spec{Kind: KRetry, MaxRetries: 1, Delay: R}
		lastFails := []Out{coop(20, E1, 0), coop(20, E1, 0)}
		for _, at := range []time.Duration{70, 80} {
			add(prepare(&c08Case{name: "retry-last-attempt", stack: []Spec{retry1}, script: lastFails, source: src, at: at}))
			add(prepare(&c08Case{name: "retry-last-attempt-returnlast", stack: []Spec{{Kind: KRetry, MaxRetries: 1, Delay: R, ReturnLast: true}}, script: lastFails, source: src, at: at}))
		}
		add(prepare(&c08Case{name: "retry-nodelay", stack: []Spec{retry0}, script: failing, source: src, at: 30}))
		add(prepare(&c08Case{name: "retry-blocking", stack: []Spec{retry}, script: blocking, source: src, at: 30}))
		add(prepare(&c08Case{name: "fallback(retry)", stack: []Spec{fb, retry}, script: failing, source: src, at: 40}))
		add(prepare(&c08Case{name: "fallback(retry)", stack: []Spec{fb, retry}, script: failing, source: src, at: 10}))
		fbCancel := Spec{Kind: KFallback, FbV: 9, Handle: []Cond{{K: "errs", E: context.Canceled, Es: []error{context.DeadlineExceeded, failsafe.ErrExecutionCanceled}}}}
		add(prepare(&c08Case{name: "fallback-handling-cancellation(retry)", stack: []Spec{fbCancel, retry}, script: failing, source: src, at: 40}))
		add(prepare(&c08Case{name: "fallback-handling-cancellation(retry)", stack: []Spec{fbCancel, retry}, script: failing, source: src, at: 10}))
		add(prepare(&c08Case{name: "retry(breaker)", stack: []Spec{retry, {Kind: KBreaker, FT: 5, FC: 5, BDelay: time.Hour}}, script: failing, source: src, at: 40}))
		add(prepare(&c08Case{name: "retry(bulkhead-wait)", stack: []Spec{retry, {Kind: KBulkhead, Conc: 1, Held: 1, BWait: 100}}, script: failing, source: src, at: 30}))
		add(prepare(&c08Case{name: "retry(limiter-wait)", stack: []Spec{retry, {Kind: KLimiter, Smooth: true, Interval: 100, LWait: 1000, Used: 1}}, script: failing, source: src, at: 30}))
		// hedge: cancellation during the first hedge delay / with all attempts running
		hs := []Out{coop(200, E1, 0), coop(200, E1, 0), coop(200, E1, 0)}
		for _, at := range []time.Duration{0, 10, 40, 100} { // (0: before the first attempt has started)
			if src == "deadline" && at == 0 {
				continue
			}
			add(prepare(&c08Case{name: "hedge", stack: []Spec{hedge}, script: hs, source: src, at: at}))
		}
		// a hedge that accepts any result (the default): cancelled before its first attempt has started, and inside it
		for _, at := range []time.Duration{0, 10} {
			if src == "deadline" && at == 0 {
				continue
			}
			add(prepare(&c08Case{name: "hedge-any-result", stack: []Spec{{Kind: KHedge, MaxHedges: 1, HDelay: R}}, script: hs, source: src, at: at}))
		}
		add(prepare(&c08Case{name: "fallback(hedge)", stack: []Spec{fb, hedge}, script: hs, source: src, at: 10}))
		add(prepare(&c08Case{name: "retry(hedge)", stack: []Spec{retry, hedge}, script: hs, source: src, at: 50}))
		// a hedge round won by a failing hedge while the first attempt is still running (it is cancelled as the
		// loser); the cancellation arrives in the retry delay that follows, and in the next round
		hedgeAny := Spec{Kind: KHedge, MaxHedges: 1, HDelay: R}
		rounds := []Out{coop(200, E1, 0), coop(10, E1, 0), coop(200, E1, 0), coop(10, E1, 0), coop(200, E1, 0), coop(10, nil, 1)}
		for _, at := range []time.Duration{70, 100} {
			add(prepare(&c08Case{name: "retry(hedge)-after-round", stack: []Spec{retry, hedgeAny}, script: rounds, source: src, at: at}))
		}
	}
	// contexts cancelled with a custom cause still report context.Canceled / DeadlineExceeded
	for _, src := range []string{"ctxcause", "deadlinecause"} {
		add(prepare(&c08Case{name: "retry", stack: []Spec{retry}, script: failing, source: src, at: 40}))
		add(prepare(&c08Case{name: "retry", stack: []Spec{retry}, script: failing, source: src, at: 10}))
		add(prepare(&c08Case{name: "hedge", stack: []Spec{hedge}, script: []Out{coop(200, E1, 0)}, source: src, at: 100}))
	}
	// waiting policies outside the retry policy: the cancellation reaches them directly
	limWait := Spec{Kind: KLimiter, Smooth: true, Interval: 100, LWait: 1000, Used: 1}
	bulkWait := Spec{Kind: KBulkhead, Conc: 1, Held: 1, BWait: 100}
	for _, src := range sources {
		add(prepare(&c08Case{name: "limiter-wait(retry)", stack: []Spec{limWait, retry}, script: failing, source: src, at: 30}))
		add(prepare(&c08Case{name: "bulkhead-wait(retry)", stack: []Spec{bulkWait, retry}, script: failing, source: src, at: 30}))
		add(prepare(&c08Case{name: "breaker(limiter-wait(retry))", stack: []Spec{{Kind: KBreaker, FT: 5, FC: 5, BDelay: time.Hour}, limWait, retry}, script: failing, source: src, at: 30}))
		add(prepare(&c08Case{name: "fallback(limiter-wait(hedge))", stack: []Spec{fb, limWait, hedge}, script: []Out{coop(200, E1, 0)}, source: src, at: 30}))
	}
	// two executions wait on the same full bulkhead / exhausted limiter; the later one is cancelled and
	// leaves at once, whatever the other one still waits for
	for _, w := range []struct {
		name string
		s    Spec
	}{{"bulkhead", Spec{Kind: KBulkhead, Conc: 1, Held: 1, BWait: 200}}, {"limiter", Spec{Kind: KLimiter, Smooth: true, Interval: 300, LWait: 1000, Used: 1}}} {
		for _, src := range []ExeSpec{{Ctx: "cancel", CancelAt: 30}, {Ctx: "deadline", CancelAt: 30}, {Async: true, CancelAsync: true, CancelAt: 30}} {
			w, src := w, src
			first := ExeSpec{Script: failing}
			second := src
			second.Script, second.StartAt = failing, 1
			stack := []Spec{w.s, retry}
			out = append(out, &Scenario{
				Name:  fmt.Sprintf("C08/two-waiters/%s [%s] %s", w.name, stackStr(stack), exesStr([]ExeSpec{first, second})),
				Bound: bound, Reduce: true,
				Body: multiBody(stack, []ExeSpec{first, second}, MultiOpts{Reduce: true, Grace: 10 * R, Final: func(env *Env) string {
					x := env.Exes[1]
					if !x.Completed {
						return "the cancelled execution did not complete"
					}
					want := map[string]error{"cancel": context.Canceled, "deadline": context.DeadlineExceeded, "": failsafe.ErrExecutionCanceled}[src.Ctx]
					if !errors.Is(x.ResE, want) {
						return fmt.Sprintf("the cancelled waiter got (%d,%v), want %v", x.ResV, x.ResE, want)
					}
					tc := x.CancelTime
					if src.Ctx == "deadline" {
						tc = 30
					}
					if x.DoneAt != tc {
						return fmt.Sprintf("the waiter cancelled at t=%d completed at t=%d (it waited for the other waiter)", tc, x.DoneAt)
					}
					if len(x.Invs) != 0 {
						return "the cancelled waiter's function was invoked"
					}
					return ""
				}}),
			})
		}
	}
	// enclosing Timeout as the source (it is part of the program: the outcome is the program's)
	T := func(l time.Duration) Spec { return Spec{Kind: KTimeout, Limit: l} }
	for _, l := range []time.Duration{10, 20, 40, 60, 70} {
		add(prepare(&c08Case{name: "timeout(retry)", stack: []Spec{T(l), retry}, script: failing, source: "timeout", at: l}))
	}
	add(prepare(&c08Case{name: "fallback(timeout(retry))", stack: []Spec{fb, T(40), retry}, script: failing, source: "timeout", at: 40}))
	add(prepare(&c08Case{name: "timeout(fallback(retry))", stack: []Spec{T(40), fb, retry}, script: failing, source: "timeout", at: 40}))
	add(prepare(&c08Case{name: "timeout(hedge)", stack: []Spec{T(50), hedge}, script: []Out{coop(200, E1, 0)}, source: "timeout", at: 50}))
	add(prepare(&c08Case{name: "timeout(retry(bulkhead-wait))", stack: []Spec{T(30), retry, {Kind: KBulkhead, Conc: 1, Held: 1, BWait: 100}}, script: failing, source: "timeout", at: 30}))
	return out
}

func init() {
	scenarioSets["C08"] = c08Scenarios
	register(&CheckDef{
		Property:  "C08",
		Technique: "stateless schedule exploration (deviation-bounded, happens-before state cache) of one execution and one cancellation source under a virtual clock",
		Rule: "one execution = one complete schedule of the execution under retry/hedge (with fallback, breaker, bulkhead, limiter), the cancellation source (canceller thread, virtual deadline, ExecutionResult.Cancel, enclosing Timeout) " +
			"placed at instants that tie with attempt ends and delay ends, and any library threads; distinct = distinct observation logs",
		Assume: []string{"sequentially consistent interleavings at synchronisation granularity", "the wrapped function cooperates with cancellation", "exactly one cancellation source per scenario",
			"instrumentation by source rewriting preserves semantics (DESIGN.md §2)"},
		Units: func(tier string) []Unit {
			var us []Unit
			for _, sc := range c08Scenarios(tier) {
				us = append(us, scenarioUnit(sc))
			}
			return us
		},
	})
}
