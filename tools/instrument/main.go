// instrument rewrites the non-test sources of the failsafe-go library packages so that every
// synchronisation, channel, timer, context and random operation goes through the virtual runtime
// in /verif/rt, and writes a `go build -overlay` file. Nothing in the repository is modified.
//
// The rewrite is done as text edits that never add or remove a newline, so file:line positions in
// the instrumented build are those of the original sources.
package main

import (
	"encoding/json"
	"flag"
	"fmt"
	"go/ast"
	"go/token"
	"go/types"
	"os"
	"path/filepath"
	"sort"
	"strings"

	"golang.org/x/tools/go/packages"
)

const modPath = "github.com/failsafe-go/failsafe-go"
const rtPath = modPath + "/verifrt/"

// names redirected to the shims; everything else in these packages stays real
var redirect = map[string]map[string]string{
	"sync": set("vsync", "Mutex", "RWMutex", "WaitGroup", "Once", "Cond", "NewCond", "OnceFunc", "OnceValue", "OnceValues", "Pool"),
	"sync/atomic": set("vatomic", "Int32", "Int64", "Uint32", "Uint64", "Uintptr", "Bool", "Pointer", "Value",
		"LoadInt32", "StoreInt32", "SwapInt32", "CompareAndSwapInt32", "AddInt32",
		"LoadInt64", "StoreInt64", "SwapInt64", "CompareAndSwapInt64", "AddInt64",
		"LoadUint32", "StoreUint32", "SwapUint32", "CompareAndSwapUint32", "AddUint32",
		"LoadUint64", "StoreUint64", "SwapUint64", "CompareAndSwapUint64", "AddUint64",
		"LoadUintptr", "StoreUintptr", "SwapUintptr", "CompareAndSwapUintptr", "AddUintptr",
		"LoadPointer", "StorePointer", "SwapPointer", "CompareAndSwapPointer"),
	"time":      set("vtime", "Now", "Since", "Until", "Sleep", "After", "AfterFunc", "NewTimer", "NewTicker", "Tick", "Timer", "Ticker"),
	"context":   set("vcontext", "WithCancel", "WithCancelCause", "WithDeadline", "WithDeadlineCause", "WithTimeout", "WithTimeoutCause", "AfterFunc", "Cause"),
	"math/rand": set("vrand", "Float64", "Float32", "Intn", "Int63n", "Int31n", "Int63", "Int31", "Int", "Uint32", "Uint64", "ExpFloat64", "NormFloat64", "Seed", "Shuffle", "Perm"),
}

func set(shim string, names ...string) map[string]string {
	m := map[string]string{}
	for _, n := range names {
		m[n] = shim
	}
	return m
}

// a use of each original package, so that its import stays used after redirection
var keepAlive = map[string]string{
	"sync":        "var _ %s.Locker",
	"sync/atomic": "var _ = %s.AddInt32",
	"time":        "var _ %s.Duration",
	"context":     "var _ %s.Context",
	"math/rand":   "var _ = %s.New",
}

type edit struct {
	pos, end int // byte offsets in the file
	text     string
}

type rewriter struct {
	fset    *token.FileSet
	info    *types.Info
	src     []byte
	base    int // offset of file start in fset
	used    map[string]bool
	counter int
	errs    []string
	file    *ast.File
}

func main() {
	repo := flag.String("repo", "/repo", "repository root")
	out := flag.String("out", "", "scratch directory for rewritten files and overlay.json")
	rt := flag.String("rt", "/verif/rt", "directory holding the virtual runtime packages")
	flag.Parse()
	if *out == "" {
		fatal("-out required")
	}
	repoAbs, _ := filepath.Abs(*repo)
	cfg := &packages.Config{
		Mode: packages.NeedName | packages.NeedFiles | packages.NeedCompiledGoFiles | packages.NeedSyntax | packages.NeedTypes | packages.NeedTypesInfo | packages.NeedImports,
		Dir:  repoAbs,
		Env:  append(os.Environ(), "GOFLAGS=-mod=mod", "GOPROXY=off", "GOSUMDB=off", "GOTOOLCHAIN=local"),
	}
	pkgs, err := packages.Load(cfg, "./...")
	if err != nil {
		fatal("load: %v", err)
	}
	overlay := map[string]string{}
	nEdits := 0
	var all []string
	for _, p := range pkgs {
		rel := strings.TrimPrefix(strings.TrimPrefix(p.PkgPath, modPath), "/")
		if strings.HasPrefix(rel, "examples") || strings.HasPrefix(rel, "test") || strings.HasPrefix(rel, "internal/testutil") ||
			strings.HasPrefix(rel, "internal/policytesting") || strings.HasPrefix(rel, "verifrt") {
			continue
		}
		if len(p.Errors) > 0 {
			for _, e := range p.Errors {
				all = append(all, e.Error())
			}
			continue
		}
		for i, f := range p.Syntax {
			name := p.CompiledGoFiles[i]
			src, err := os.ReadFile(name)
			if err != nil {
				fatal("%v", err)
			}
			tf := p.Fset.File(f.Pos())
			rw := &rewriter{fset: p.Fset, info: p.TypesInfo, src: src, base: tf.Base(), used: map[string]bool{}, file: f}
			edits := rw.collect(f)
			all = append(all, rw.errs...)
			if len(edits) == 0 {
				continue
			}
			nEdits += len(edits)
			// imports go on the package clause line, keep-alives at the end of the file
			var imp strings.Builder
			var shims []string
			for s := range rw.used {
				shims = append(shims, s)
			}
			sort.Strings(shims)
			for _, s := range shims {
				fmt.Fprintf(&imp, "; import %s %q", s, rtPath+s)
			}
			pkgEnd := rw.off(f.Name.End())
			edits = append(edits, edit{pkgEnd, pkgEnd, imp.String()})
			var tail strings.Builder
			tail.WriteString("\n")
			for _, is := range f.Imports {
				path := strings.Trim(is.Path.Value, `"`)
				if ka, ok := keepAlive[path]; ok {
					local := filepath.Base(path)
					if is.Name != nil {
						local = is.Name.Name
					}
					if local == "_" || local == "." {
						continue
					}
					fmt.Fprintf(&tail, ka+"\n", local)
				}
			}
			edits = append(edits, edit{len(src), len(src), tail.String()})
			patched := apply(src, 0, len(src), edits)
			relf, _ := filepath.Rel(repoAbs, name)
			dst := filepath.Join(*out, "src", relf)
			os.MkdirAll(filepath.Dir(dst), 0o755)
			if err := os.WriteFile(dst, []byte(patched), 0o644); err != nil {
				fatal("%v", err)
			}
			overlay[name] = dst
		}
	}
	if len(all) > 0 {
		for _, e := range all {
			fmt.Fprintln(os.Stderr, "instrument:", e)
		}
		os.Exit(2)
	}
	// virtual runtime packages inside the library's module
	rtAbs, _ := filepath.Abs(*rt)
	ents, _ := os.ReadDir(rtAbs)
	for _, d := range ents {
		if !d.IsDir() {
			continue
		}
		files, _ := filepath.Glob(filepath.Join(rtAbs, d.Name(), "*.go"))
		for _, f := range files {
			overlay[filepath.Join(repoAbs, "verifrt", d.Name(), filepath.Base(f))] = f
		}
	}
	b, _ := json.MarshalIndent(map[string]any{"Replace": overlay}, "", " ")
	if err := os.WriteFile(filepath.Join(*out, "overlay.json"), b, 0o644); err != nil {
		fatal("%v", err)
	}
	fmt.Printf("instrument: %d edits, %d files in overlay\n", nEdits, len(overlay))
}

func fatal(f string, a ...any) {
	fmt.Fprintf(os.Stderr, "instrument: "+f+"\n", a...)
	os.Exit(2)
}

func (rw *rewriter) off(p token.Pos) int { return int(p) - rw.base }

func (rw *rewriter) use(shim string) string { rw.used[shim] = true; return shim }

func (rw *rewriter) tmp(prefix string) string {
	rw.counter++
	return fmt.Sprintf("_vrt%s%d", prefix, rw.counter)
}

// text returns the source text of n with all rewrite rules applied inside it.
func (rw *rewriter) text(n ast.Node) string {
	return apply(rw.src, rw.off(n.Pos()), rw.off(n.End()), rw.collect(n))
}

func apply(src []byte, from, to int, edits []edit) string {
	sort.SliceStable(edits, func(i, j int) bool {
		if edits[i].pos != edits[j].pos {
			return edits[i].pos < edits[j].pos
		}
		return edits[i].end < edits[j].end
	})
	var sb strings.Builder
	cur := from
	for _, e := range edits {
		if e.pos < cur {
			panic(fmt.Sprintf("overlapping edits at %d (%q)", e.pos, e.text))
		}
		sb.Write(src[cur:e.pos])
		sb.WriteString(e.text)
		cur = e.end
	}
	sb.Write(src[cur:to])
	return sb.String()
}

func oneLine(s string) string { return s } // edits keep the newlines of the text they replace

// collect walks n and returns the edits for everything inside it.
func (rw *rewriter) collect(root ast.Node) []edit {
	var edits []edit
	add := func(p, e token.Pos, text string) { edits = append(edits, edit{rw.off(p), rw.off(e), text}) }
	var walk func(n ast.Node)
	walkAll := func(ns ...ast.Node) {
		for _, n := range ns {
			if n != nil && !isNilNode(n) {
				walk(n)
			}
		}
	}
	walk = func(n ast.Node) {
		ast.Inspect(n, func(c ast.Node) bool {
			if c == nil {
				return true
			}
			switch x := c.(type) {
			case *ast.SelectorExpr:
				if id, ok := x.X.(*ast.Ident); ok {
					if pn, ok := rw.info.Uses[id].(*types.PkgName); ok {
						if m, ok := redirect[pn.Imported().Path()]; ok {
							if shim, ok := m[x.Sel.Name]; ok {
								add(id.Pos(), id.End(), rw.use(shim))
							}
						}
						return false
					}
				}
				return true

			case *ast.GoStmt:
				rw.goStmt(x, add, walk)
				return false

			case *ast.SendStmt:
				add(x.Pos(), x.Pos(), rw.use("vrt")+".Send(")
				walk(x.Chan)
				add(x.Chan.End(), x.Value.Pos(), ", ")
				walk(x.Value)
				add(x.End(), x.End(), ")")
				return false

			case *ast.AssignStmt:
				if len(x.Lhs) == 2 && len(x.Rhs) == 1 {
					if u, ok := unparen(x.Rhs[0]).(*ast.UnaryExpr); ok && u.Op == token.ARROW {
						for _, l := range x.Lhs {
							walk(l)
						}
						add(x.Rhs[0].Pos(), u.X.Pos(), rw.use("vrt")+".Recv2(")
						walk(u.X)
						add(u.X.End(), x.Rhs[0].End(), ")")
						return false
					}
				}
				return true

			case *ast.ValueSpec:
				if len(x.Names) == 2 && len(x.Values) == 1 {
					if u, ok := unparen(x.Values[0]).(*ast.UnaryExpr); ok && u.Op == token.ARROW {
						if x.Type != nil {
							walk(x.Type)
						}
						add(x.Values[0].Pos(), u.X.Pos(), rw.use("vrt")+".Recv2(")
						walk(u.X)
						add(u.X.End(), x.Values[0].End(), ")")
						return false
					}
				}
				return true

			case *ast.UnaryExpr:
				if x.Op == token.ARROW {
					add(x.Pos(), x.X.Pos(), rw.use("vrt")+".Recv(")
					walk(x.X)
					add(x.End(), x.End(), ")")
					return false
				}
				return true

			case *ast.CallExpr:
				if id, ok := x.Fun.(*ast.Ident); ok && id.Name == "close" && len(x.Args) == 1 {
					if _, ok := rw.info.Uses[id].(*types.Builtin); ok {
						add(id.Pos(), id.End(), rw.use("vrt")+".Close")
						walk(x.Args[0])
						return false
					}
				}
				if sel, ok := x.Fun.(*ast.SelectorExpr); ok && sel.Sel.Name == "Err" && len(x.Args) == 0 && rw.isContext(sel.X) {
					add(x.Pos(), x.Pos(), rw.use("vrt")+".CtxErr(")
					walk(sel.X)
					add(sel.X.End(), x.End(), ")")
					return false
				}
				return true

			case *ast.LabeledStmt:
				if s, ok := x.Stmt.(*ast.SelectStmt); ok {
					add(x.Label.Pos(), x.Colon+1, "")
					rw.selectStmt(s, x.Label.Name+": ", add, walk)
					return false
				}
				return true

			case *ast.SelectStmt:
				rw.selectStmt(x, "", add, walk)
				return false

			case *ast.RangeStmt:
				if t := rw.info.TypeOf(x.X); t != nil {
					if _, ok := t.Underlying().(*types.Chan); ok {
						rw.rangeChan(x, add)
						walk(x.Body)
						return false
					}
				}
				return true
			}
			return true
		})
	}
	_ = walkAll
	// ast.Inspect visits root itself first; the rules above apply to it as well
	walk(root)
	return edits
}

func isNilNode(n ast.Node) bool { return n == nil }

func unparen(e ast.Expr) ast.Expr {
	for {
		p, ok := e.(*ast.ParenExpr)
		if !ok {
			return e
		}
		e = p.X
	}
}

func (rw *rewriter) isContext(e ast.Expr) bool {
	t := rw.info.TypeOf(e)
	if t == nil {
		return false
	}
	for _, m := range []string{"Done", "Err", "Deadline", "Value"} {
		obj, _, _ := types.LookupFieldOrMethod(t, true, nil, m)
		if _, ok := obj.(*types.Func); !ok {
			return false
		}
	}
	return true
}

func (rw *rewriter) isConst(e ast.Expr) bool {
	tv, ok := rw.info.Types[e]
	if !ok {
		return false
	}
	return tv.Value != nil || tv.IsNil()
}

func (rw *rewriter) goStmt(g *ast.GoStmt, add func(p, e token.Pos, text string), walk func(ast.Node)) {
	call := g.Call
	var pre strings.Builder
	pre.WriteString("{ ")
	args := make([]string, len(call.Args))
	var names, vals []string
	for i, a := range call.Args {
		if rw.isConst(a) {
			args[i] = rw.text(a)
			continue
		}
		n := rw.tmp("g")
		names = append(names, n)
		vals = append(vals, rw.text(a))
		args[i] = n
	}
	if call.Ellipsis.IsValid() && len(args) > 0 {
		args[len(args)-1] += "..."
	}
	if len(names) > 0 {
		pre.WriteString(strings.Join(names, ", ") + " := " + strings.Join(vals, ", ") + "; ")
	}
	argText := "(" + strings.Join(args, ", ") + ") }) }"
	if fl, ok := unparen(call.Fun).(*ast.FuncLit); ok {
		pre.WriteString(rw.use("vrt") + ".Go(func() { ")
		add(g.Pos(), call.Fun.Pos(), pre.String())
		walk(fl)
		add(call.Fun.End(), g.End(), argText)
		return
	}
	f := rw.tmp("f")
	pre.WriteString(f + " := " + rw.text(call.Fun) + "; " + rw.use("vrt") + ".Go(func() { " + f + argText)
	add(g.Pos(), g.End(), flatten(pre.String(), rw.src[rw.off(g.Pos()):rw.off(g.End())]))
}

// flatten keeps the number of newlines of the replaced text.
func flatten(text string, orig []byte) string {
	want := strings.Count(string(orig), "\n")
	have := strings.Count(text, "\n")
	if have > want {
		text = strings.ReplaceAll(text, "\n", " ")
		have = 0
	}
	return text + strings.Repeat("\n", want-have)
}

func (rw *rewriter) selectStmt(s *ast.SelectStmt, label string, add func(p, e token.Pos, text string), walk func(ast.Node)) {
	var hoist strings.Builder
	var cases []string
	hasDef := false
	idx := 0
	for _, cl := range s.Body.List {
		cc := cl.(*ast.CommClause)
		if cc.Comm == nil {
			hasDef = true
			for _, b := range cc.Body {
				walk(b)
			}
			continue
		}
		c := rw.tmp("c")
		var stmt string
		switch comm := cc.Comm.(type) {
		case *ast.SendStmt:
			fmt.Fprintf(&hoist, "%s := %s; ", c, rw.text(comm.Chan))
			cases = append(cases, fmt.Sprintf("%s.W(%s)", rw.use("vrt"), c))
			if rw.isPure(comm.Value) {
				stmt = fmt.Sprintf("%s.SelSend(%s, %s)", rw.use("vrt"), c, rw.text(comm.Value))
			} else {
				v := rw.tmp("v")
				fmt.Fprintf(&hoist, "%s := %s.Elem(%s, %s); ", v, rw.use("vrt"), c, rw.text(comm.Value))
				stmt = fmt.Sprintf("%s.SelSend(%s, %s)", rw.use("vrt"), c, v)
			}
		case *ast.ExprStmt:
			u := unparen(comm.X).(*ast.UnaryExpr)
			fmt.Fprintf(&hoist, "%s := %s; ", c, rw.text(u.X))
			cases = append(cases, fmt.Sprintf("%s.R(%s)", rw.use("vrt"), c))
			stmt = rw.use("vrt") + ".SelRecv(" + c + ")"
		case *ast.AssignStmt:
			u := unparen(comm.Rhs[0]).(*ast.UnaryExpr)
			fmt.Fprintf(&hoist, "%s := %s; ", c, rw.text(u.X))
			cases = append(cases, fmt.Sprintf("%s.R(%s)", rw.use("vrt"), c))
			var lhs []string
			for _, l := range comm.Lhs {
				lhs = append(lhs, rw.text(l))
			}
			fn := ".SelRecv("
			if len(comm.Lhs) == 2 {
				fn = ".SelRecv2("
			}
			stmt = strings.Join(lhs, ", ") + " " + comm.Tok.String() + " " + rw.use("vrt") + fn + c + ")"
			if comm.Tok == token.DEFINE {
				for _, l := range comm.Lhs {
					if id, ok := l.(*ast.Ident); ok && id.Name != "_" {
						stmt += "; _ = " + id.Name
					}
				}
			}
		default:
			rw.errs = append(rw.errs, fmt.Sprintf("%s: unsupported select clause", rw.fset.Position(cc.Pos())))
		}
		hdr := fmt.Sprintf("case %d: %s;", idx, stmt)
		add(cc.Pos(), cc.Colon+1, flatten(hdr, rw.src[rw.off(cc.Pos()):rw.off(cc.Colon+1)]))
		idx++
		for _, b := range cc.Body {
			walk(b)
		}
	}
	def := "false"
	if hasDef {
		def = "true"
	}
	all := append([]string{def}, cases...)
	head := fmt.Sprintf("{ %s%sswitch %s.Select(%s) {", hoist.String(), label, rw.use("vrt"), strings.Join(all, ", "))
	add(s.Pos(), s.Body.Lbrace+1, flatten(head, rw.src[rw.off(s.Pos()):rw.off(s.Body.Lbrace+1)]))
	if hasDef {
		add(s.Body.Rbrace, s.Body.Rbrace+1, "} }")
	} else {
		// keeps the statement terminating when every clause is, as the select was
		add(s.Body.Rbrace, s.Body.Rbrace+1, "default: panic(\"vrt: select without default returned no case\") } }")
	}
}

func (rw *rewriter) isPure(e ast.Expr) bool {
	pure := true
	ast.Inspect(e, func(n ast.Node) bool {
		switch x := n.(type) {
		case *ast.CallExpr:
			// conversions and composite literals are fine; calls are not
			if tv, ok := rw.info.Types[x.Fun]; !ok || !tv.IsType() {
				pure = false
			}
		case *ast.UnaryExpr:
			if x.Op == token.ARROW {
				pure = false
			}
		}
		return pure
	})
	return pure
}

func (rw *rewriter) rangeChan(r *ast.RangeStmt, add func(p, e token.Pos, text string)) {
	ok := rw.tmp("ok")
	ch := rw.tmp("r")
	var hdr string
	recv := fmt.Sprintf("%s.Recv2(%s)", rw.use("vrt"), ch)
	switch {
	case r.Key == nil:
		hdr = fmt.Sprintf("for %s := %s; ; { _, %s := %s; if !%s { break };", ch, rw.text(r.X), ok, recv, ok)
	case r.Tok == token.DEFINE:
		k := rw.text(r.Key)
		hdr = fmt.Sprintf("for %s := %s; ; { %s, %s := %s; if !%s { break }; _ = %s;", ch, rw.text(r.X), k, ok, recv, ok, k)
	default:
		k := rw.text(r.Key)
		hdr = fmt.Sprintf("for %s := %s; ; { var %s bool; %s, %s = %s; if !%s { break };", ch, rw.text(r.X), ok, k, ok, recv, ok)
	}
	add(r.Pos(), r.Body.Lbrace+1, flatten(hdr, rw.src[rw.off(r.Pos()):rw.off(r.Body.Lbrace+1)]))
}
