#!/usr/bin/env python3
# Regenerates MANIFEST.json from the table below (kept in one place so it is always valid).
import json
claimed = {
 "C07": ("SX", "Exhaustive (preemption-bounded, bound 2 quick / 3 thorough) exploration of every schedule of the real Timeout executor and its timer thread against the scripted function, in 46 placements/durations incl. the exact tie d = limit; layer contract checked on probe records of every execution.",
         "§5 C07"),
 "C06": ("SX", "Exhaustive exploration (deviation bound 2 quick / 3 thorough, with a happens-before state cache) of 2-4 concurrent sync/async executions, cancellers and standalone API callers through one real bulkhead; the permit release, wait timer and cancellation share a virtual instant so all orders occur; in-flight invariant at every function entry and permit-count probe at quiescence.",
         "§5 C06"),
 "C04": ("SX", "Exhaustive exploration (deviation bound 2 quick / 3 thorough, happens-before state cache) of 2-4 concurrent executions (sync/async, bare or under retry/timeout/fallback) and standalone callers through one real breaker: races with the opening failure, half-open trial capacity, the delay boundary, trials ended by cancellation/timeout; admission after the open event, in-flight trials and permit probes at quiescence are checked on every schedule.",
         "§5 C04"),
 "C08": ("SX", "Exhaustive exploration (deviation bound 2 quick / 3 thorough, happens-before state cache) of one execution under retry/hedge (+fallback, breaker, bulkhead, limiter) with exactly one cancellation source (context cancel, virtual deadline, ExecutionResult.Cancel, enclosing Timeout) placed before the first attempt, inside attempts, at attempt ends, inside delays and at delay ends; cause of the returned error, number of late attempts, promptness (virtual completion instant = cancellation instant) and fallback suppression are checked on every schedule.",
         "§5 C08"),
 "C09": ("SX", "Exhaustive exploration (deviation bound 1 quick / 2 thorough, happens-before state cache) of the real hedge executor and its attempt threads over every assignment of durations {0, D, 3D, until cancelled} (thorough adds D-1, D+1) and outcomes to the attempts for maxHedges 1 and 2, four cancel-condition configurations, and placements inside retry/timeout/fallback; the hedge layer contract (attempt count, spacing, acceptance instant, winner/loser cancellation sampled at the moment of return, Hedges/Attempts) is evaluated on the probe log of every schedule.",
         "§5 C09"),
 "C03": ("BX", "Explicit-state BFS (depth 6 quick / 9 thorough) over operation histories of the real breaker for 61 (quick) / 116 (thorough) configurations: count, ratio, period-count and period-rate failure thresholds x success thresholds/ratios, fixed delay and delay function, handle conditions; operations: records, permit requests, executions, manual transitions, clock advances to 1 tick, slice-1, slice, period, delay-1 and exactly the delay. Every transition is compared with a reference model written from the documentation (state, admission, metrics, remaining delay, events with old-state metrics); states merged only on exact dumps.",
         "§5 C03"),
 "C05": ("BX", "Explicit-state BFS (depth 5 quick / 7 thorough) over histories of TryAcquire/Reserve/TryReserve/blocking Acquire/executions with permit counts {1,2,3,5}, max waits {0, unit-1, unit, 3 units, none} and clock advances (1 tick, boundary-1, boundary, boundary+1, 2.5 and 7 units of idle time) on 10 real smooth and bursty limiters, every answer compared with a slot/period reference model (earliest instant respecting the rate and request order; refusals change nothing); plus SX exploration (deviation bound 2/3) of 2-3 concurrent callers whose answers must equal those of some sequential order.",
         "§5 C05"),
 "C15": ("SX", "Exhaustive exploration (deviation bound 2 quick / 3 thorough, happens-before state cache) of the async runner, 1-3 concurrent readers each doing a sequence of Done/IsDone/Get/Result/Error, and an optional Cancel at instants before, inside, at the end of and between attempts, for all four async entry points and stacks none/retry/hedge/timeout/fallback; Done-after-listeners, IsDone monotonicity, equal values for all readers, agreement with the synchronous run of the same program and the Cancel outcome are checked on every schedule.",
         "§5 C15"),
 "C18": ("PX", "Exhaustive enumeration (quick: pairwise, 400+ programs; thorough: full product, 25k programs) of request body kind/size x request context kind x executor context kind x policy stack x server script x entry point, each run on the real HTTP adapter under the virtual runtime against a recording fake transport, plus gRPC client/server/tap interceptor programs over all 17 status codes and 6 context kinds; every attempt's method, URL, headers, complete body, context values/metadata/deadline, the retry count, Retry-After spacing, the returned response and its readable body are checked.",
         "§5 C18"),
 "C19": ("SX", "Leak oracle at quiescence on every schedule (deviation bound 1 quick / 2 thorough) of 58 core scenarios (each policy x success/failure/rejection/timeout/cancellation, hedge losers returning late, cancellations tied with delay ends, repetitions) and 200+ HTTP/gRPC scenarios with caller contexts that never end: library threads still parked or library timers still pending once all user code has returned are leaks; responses not returned must be closed.",
         "§5 C19"),
 "C12": ("PX", "Full enumeration of the truth table: all 65 ordered subsets of the four condition kinds x 6 registration variants (value / non-pointer / pointer type target; single and multi-argument calls) x 32 outcomes (result 0/1 x nil, sentinel, wrapped, joined, typed by value and by pointer receiver, nested wrap/join, unrelated), each exercised on the real fallback, retry policy, breaker (executions and RecordResult/RecordError), retry abort conditions and hedge cancel conditions and compared with the documented rules using the standard library's matchers: 12,480 cases, 62,400 policy runs.",
         "§5 C12"),
 "C13": ("PX", "Enumeration of 1,800 retry delay configurations (fixed, backoff x 3 factors x 2 max delays, random range, four delay functions; magnitudes 1us..7h+1ns; 7 jitter settings; 3 max durations; attempt durations) with eight consecutive failures each, every random draw an enumerated choice point over {0, 0.5, 1-2^-53} (first 3 draws quick / 5 thorough): every scheduled delay is compared with the un-jittered value prescribed by the statement, the jitter envelope, maxDelay, monotonicity, the remaining max duration, and the virtual instant of the next attempt.",
         "§5 C13"),
 "C01": ("PX", "Enumeration of ~20k (quick) programs: stacks of 1-3 configurations from a 26-element alphabet over all eight policies x outcome scripts x histories of 2-3 executions on the same instances, sync and async; a transparent probe between every two layers records what each layer was asked and answered, and every layer is checked against its own documented behaviour (retry, breaker and limiter reference models, bulkhead, timeout, hedge, fallback, cache contracts), plus the caller's result, the verdict reported to the completion listeners and the public state of stateful policies after every execution. Stacks with timeout/hedge are explored over all schedules within deviation bound 1.",
         "§5 C01"),
 "C02": ("PX", "Enumeration of ~35k retry programs (maxRetries -1..3 in both spellings x 4 handle x 5 abort condition sets x ReturnLastFailure x all outcome scripts up to length 4/5, max-duration programs) against the retry layer contract (invocation count, stop reason, ExceededError contents, unchanged stopping outcome), plus SX exploration (deviation bound 2/3) of concurrent, successive and async executions through one policy instance whose invocation counts and results must equal those of their own sequential runs.",
         "§5 C02"),
 "C10": ("PX", "Enumeration of fallback programs: 4 outputs x 19 handle-condition sets x 8 inner compositions (producing plain results, handled/unhandled errors, ExceededError, ErrOpen, ErrFull, rate-limit and timeout errors) x 7 outcomes, each run twice, checked against the fallback layer contract (applied iff handled failure and not cancelled, exactly once, sees the failure as last result, output replaces the result and is classified by the same conditions, pass-through otherwise) and its events; plus SX exploration of cancellation landing around the fallback's own failure listener.",
         "§5 C10"),
 "C11": ("PX", "Enumeration of cache programs: configured key x initial content x CacheIf x 7 inner compositions x outcomes x histories of three executions with context keys {absent, a, b, empty, non-string}, and the cache nested inside a retry policy, run on the real policy with an instrumented cache and compared with a plain map (hits skip everything inside, misses pass through and store iff cacheable, key precedence, no key no access, state of inner policies).",
         "§5 C11"),
 "C14": ("SX", "Race-detector build in which the scheduler's baton hand-offs are hidden from the detector (runtime.RaceDisable around them; positive and negative controls in the litmus suite), so every explored schedule is judged by happens-before: 93 scenarios (each policy and every ordered pair with a sync + async execution and a standalone caller; hedge over / timeout over each policy; hedge attempts finishing at the same instant; async Cancel), deviation bound 1 quick / 2 thorough; race reports, panics and deadlocks are violations.",
         "§5 C14"),
 "C16": ("PX", "The C01 program space with every listener of every builder registered and the event log of each execution checked against the event contract (counts, order of OnRetryScheduled/OnRetry/next attempt, OnRetriesExceeded/OnAbort situations, breaker events = reference transitions with specific+generic pairs, rejection/timeout/fallback/hedge/cache events exactly when the occurrence happened, policy OnSuccess/OnFailure per classified result), plus SX exploration of concurrent executions sharing listeners with per-execution attribution through a context value.",
         "§5 C16"),
 "C17": ("PX", "The C01 program space with the execution statistics sampled at every point user code runs (function entry and exit, every listener, fallback, done event, probes) and compared with the harness's own counts: Attempts = 1 + retries + hedges started, Executions = invocations completed (exact sequentially, bounded during overlapping hedge attempts, exact at quiescence), IsFirstAttempt/IsRetry/IsHedge, LastResult/LastError of the previous attempt.",
         "§5 C17"),
}
na = {}
props = [json.loads(l) for l in open('/verif/properties.jsonl')]
checks = []
for p in props:
    pid = p['id']
    if pid in claimed:
        eng, text, ref = claimed[pid]
        checks.append({
            "property_id": pid,
            "quick_cmd": f"./run.sh {pid} quick",
            "thorough_cmd": f"./run.sh {pid} thorough",
            "evidence_file": f"/verif/evidence/{pid}.json",
            "replay_cmd_template": "./run.sh replay {path}",
            "engine": eng,
            "level_claimed": {"category": "model_checking", "text": text, "design_ref": ref},
            "level_note": "Bounded: preemption/deviation bound, alphabets and depths as reported in the evidence file. Trusts the source-level instrumentation (DESIGN.md §2), sequential consistency at synchronisation granularity, the Go runtime and standard library.",
            "technique": "model checking: exhaustive bounded exploration of the real implementation under a controlled scheduler and virtual clock",
        })
    else:
        na[pid] = na.get(pid) or "check not built yet in this session (planned, see DESIGN.md §5); not claimed until it runs"
m = {
 "version": 1,
 "setup_cmd": "./run.sh build && VERIF_RACE=1 ./run.sh build && ./run.sh litmus",
 "hooks": {
   "guard": "verif",
   "enable": "no source hooks: checks instrument a copy of the library at check time with `go build -overlay` (tools/instrument + rt/); the build tag is unused by /repo",
   "baseline_off_cmd": "cd /repo && GOFLAGS=-mod=mod GOPROXY=off GOSUMDB=off go test -json -vet=off -count=1 -timeout 25m ./...",
   "source_commits": [],
   "add_only": True,
 },
 "engines": [
   {"name": "SX", "path": "harness/sx.go", "serves_properties": sorted(k for k,v in claimed.items() if v[0]=="SX"), "kind_free_text": "stateless deviation-bounded DFS over schedules of the instrumented library under the vrt virtual runtime (rt/)"},
   {"name": "PX", "path": "harness/px.go", "serves_properties": sorted(k for k,v in claimed.items() if v[0]=="PX"), "kind_free_text": "exhaustive enumeration of programs (stack x configuration x script x history), each executed on the real code under vrt and checked against layer contracts / reference models"},
   {"name": "BX", "path": "harness/bx.go", "serves_properties": sorted(k for k,v in claimed.items() if v[0]=="BX"), "kind_free_text": "explicit-state BFS over operation histories of one real object with exact state de-duplication, compared with a reference model in every state"},
 ],
 "checks": checks,
 "notes": "All checks run from /verif via run.sh, which re-instruments and rebuilds from the current working tree of /repo (cached by content hash).",
 "not_applicable": [{"property_id": k, "reason": v} for k, v in sorted(na.items())],
}
json.dump(m, open('/verif/MANIFEST.json', 'w'), indent=1)
print("claimed", len(checks), "not claimed", len(na))
