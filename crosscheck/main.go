// crosscheck validates the one modelling assumption of the C18/C19 fake transport against the
// implementation it stands for, and replays a sample of C18 cases (including the recorded finding)
// on the UNINSTRUMENTED library with a real net/http transport and a loopback httptest server.
// It prints one JSON object; "disagreements" (infrastructure) must be empty; "violations" are cases in
// which the property itself fails on the real stack.
package main

import (
	"bytes"
	"context"
	"encoding/json"
	"errors"
	"fmt"
	"io"
	"net/http"
	"net/http/httptest"
	"os"
	"strings"
	"sync"
	"time"

	"github.com/failsafe-go/failsafe-go"
	"github.com/failsafe-go/failsafe-go/failsafehttp"
	"github.com/failsafe-go/failsafe-go/hedgepolicy"
	"github.com/failsafe-go/failsafe-go/timeout"
)

type key string

type result struct {
	Cases         int      `json:"cases"`
	Agreements    int      `json:"agreements"`
	Disagreements []string `json:"disagreements"` // the fake transport's modelling assumption does not hold on the real one
	Violations    []string `json:"violations"`    // the property itself fails on the real stack
	Notes         []string `json:"notes"`
}

type seen struct {
	mu     sync.Mutex
	bodies []string
	hdr    []string
}

func server(statuses []int, s *seen, bodyDelay time.Duration) *httptest.Server {
	var mu sync.Mutex
	n := 0
	return httptest.NewServer(http.HandlerFunc(func(w http.ResponseWriter, r *http.Request) {
		b, _ := io.ReadAll(r.Body)
		s.mu.Lock()
		s.bodies = append(s.bodies, string(b))
		s.hdr = append(s.hdr, r.Header.Get("X-Test"))
		s.mu.Unlock()
		mu.Lock()
		st := statuses[min(n, len(statuses)-1)]
		n++
		mu.Unlock()
		w.WriteHeader(st)
		if f, ok := w.(http.Flusher); ok {
			f.Flush()
		}
		if bodyDelay > 0 {
			select {
			case <-time.After(bodyDelay):
			case <-r.Context().Done():
				return
			}
		}
		fmt.Fprint(w, "response-body")
	}))
}

func main() {
	res := &result{}
	expect := func(name string, ok bool, detail string) {
		res.Cases++
		if ok {
			res.Agreements++
		} else if strings.HasPrefix(name, "net/http:") {
			res.Disagreements = append(res.Disagreements, name+": "+detail)
		} else {
			res.Violations = append(res.Violations, name+": "+detail)
		}
	}

	// 1. the fake's modelling assumption: once the request context is done, reading the body of a
	//    response obtained under it fails (real net/http transport)
	{
		s := &seen{}
		srv := server([]int{200}, s, 300*time.Millisecond)
		ctx, cancel := context.WithCancel(context.Background())
		req, _ := http.NewRequestWithContext(ctx, "GET", srv.URL, nil)
		resp, err := http.DefaultTransport.RoundTrip(req)
		if err != nil {
			expect("assumption", false, err.Error())
		} else {
			cancel()
			_, rerr := io.ReadAll(resp.Body)
			expect("net/http: body read fails after the request context is cancelled", rerr != nil && errors.Is(rerr, context.Canceled), fmt.Sprint(rerr))
			resp.Body.Close()
		}
		cancel()
		srv.Close()
	}

	do := func(name string, rt http.RoundTripper, ctx context.Context, srvStatuses []int, body string, bodyDelay time.Duration) (*http.Response, []byte, error, error, *seen) {
		s := &seen{}
		srv := server(srvStatuses, s, bodyDelay)
		defer srv.Close()
		req, _ := http.NewRequestWithContext(ctx, "POST", srv.URL, io.MultiReader(strings.NewReader(body[:len(body)/2]), strings.NewReader(body[len(body)/2:])))
		req.Header.Set("X-Test", "1")
		resp, err := rt.RoundTrip(req)
		var got []byte
		var rerr error
		if resp != nil {
			got, rerr = io.ReadAll(resp.Body)
			resp.Body.Close()
		}
		return resp, got, err, rerr, s
	}

	// 2. passing cases of the C18 space on the real stack: retried 500 then 200, every attempt sees the
	//    complete body and the headers, the last response's body is readable
	{
		rt := failsafehttp.NewRoundTripper(nil, failsafehttp.RetryPolicyBuilder().Build())
		resp, got, err, rerr, s := do("retry", rt, context.Background(), []int{500, 200}, "hello streamed body", 0)
		ok := err == nil && resp != nil && resp.StatusCode == 200 && rerr == nil && string(got) == "response-body" &&
			len(s.bodies) == 2 && s.bodies[0] == "hello streamed body" && s.bodies[1] == "hello streamed body" && s.hdr[1] == "1"
		expect("retry 500->200, streamed body, background contexts", ok, fmt.Sprintf("err=%v rerr=%v got=%q bodies=%q", err, rerr, got, s.bodies))
	}
	{
		rt := failsafehttp.NewRoundTripper(nil, failsafehttp.RetryPolicyBuilder().Build())
		resp, _, err, _, s := do("501", rt, context.Background(), []int{501}, "b", 0)
		expect("501 is not retried", err == nil && resp.StatusCode == 501 && len(s.bodies) == 1, fmt.Sprintf("err=%v attempts=%d", err, len(s.bodies)))
	}
	{
		rt := failsafehttp.NewRoundTripper(nil, failsafehttp.RetryPolicyBuilder().Build())
		t0 := time.Now()
		srvSeen := &seen{}
		var mu sync.Mutex
		n := 0
		srv := httptest.NewServer(http.HandlerFunc(func(w http.ResponseWriter, r *http.Request) {
			io.ReadAll(r.Body)
			mu.Lock()
			n++
			k := n
			mu.Unlock()
			srvSeen.mu.Lock()
			srvSeen.bodies = append(srvSeen.bodies, time.Since(t0).String())
			srvSeen.mu.Unlock()
			if k == 1 {
				w.Header().Set("Retry-After", "1")
				w.WriteHeader(429)
				return
			}
			fmt.Fprint(w, "ok")
		}))
		req, _ := http.NewRequest("GET", srv.URL, nil)
		start := time.Now()
		resp, err := rt.RoundTrip(req)
		el := time.Since(start)
		expect("Retry-After: 1 is waited for", err == nil && resp.StatusCode == 200 && el >= time.Second, fmt.Sprintf("err=%v elapsed=%v", err, el))
		if resp != nil {
			resp.Body.Close()
		}
		srv.Close()
	}
	// 3. context values and deadline reach the attempt (repaired by 86e1ed5): observed through a
	//    recording inner RoundTripper in front of the real transport
	{
		var got any
		var hasDl bool
		inner := roundTripFunc(func(r *http.Request) (*http.Response, error) {
			got = r.Context().Value(key("k"))
			_, hasDl = r.Context().Deadline()
			return http.DefaultTransport.RoundTrip(r)
		})
		rt := failsafehttp.NewRoundTripper(inner, timeout.With[*http.Response](5*time.Second))
		ctx, cancel := context.WithTimeout(context.WithValue(context.Background(), key("k"), "v"), 10*time.Second)
		resp, _, err, _, _ := do("values", rt, ctx, []int{200}, "bb", 0)
		cancel()
		expect("caller's context value and deadline reach the attempt under a Timeout", err == nil && resp != nil && got == "v" && hasDl, fmt.Sprintf("err=%v value=%v deadline=%v", err, got, hasDl))
	}
	// 4. the recorded C18 finding on the real stack: Timeout (or hedge) + non-background request context:
	//    the returned response's body cannot be read
	for _, pol := range []struct {
		name string
		p    failsafe.Policy[*http.Response]
	}{{"timeout", timeout.With[*http.Response](5 * time.Second)}, {"hedge", hedgepolicy.WithDelay[*http.Response](5 * time.Second)}} {
		rt := failsafehttp.NewRoundTripper(nil, pol.p)
		ctx := context.WithValue(context.Background(), key("k"), "v")
		resp, got, err, rerr, _ := do("finding", rt, ctx, []int{200}, "bb", 200*time.Millisecond)
		reproduced := err == nil && resp != nil && rerr != nil && errors.Is(rerr, context.Canceled)
		res.Cases++
		if reproduced {
			res.Agreements++
			res.Notes = append(res.Notes, "known finding reproduced on the real transport ("+pol.name+"): body read failed with "+rerr.Error())
		} else if err == nil && rerr == nil && string(got) == "response-body" {
			res.Agreements++
			res.Notes = append(res.Notes, "known finding NOT present on this tree ("+pol.name+"): body read fine")
		} else {
			res.Disagreements = append(res.Disagreements, fmt.Sprintf("finding/%s: err=%v rerr=%v got=%q", pol.name, err, rerr, got))
		}
	}
	// background request context under a Timeout: no merged context, body readable (fake says the same)
	{
		rt := failsafehttp.NewRoundTripper(nil, timeout.With[*http.Response](5*time.Second))
		resp, got, err, rerr, _ := do("bg", rt, context.Background(), []int{200}, "bb", 100*time.Millisecond)
		expect("background request context under a Timeout: body readable", err == nil && resp != nil && rerr == nil && string(got) == "response-body", fmt.Sprintf("err=%v rerr=%v got=%q", err, rerr, got))
	}
	// 5. the recorded seekable-body finding on the real stack: a ReadSeeker set directly as the request
	//    body, hedge attempts overlapping while the body is still being sent
	{
		s := &seen{}
		srv := server([]int{200}, s, 0)
		body := &slowSeeker{Reader: strings.NewReader("hello body")}
		req, _ := http.NewRequest("POST", srv.URL, nil)
		req.Body, req.ContentLength = body, 10
		rt := failsafehttp.NewRoundTripper(nil, hedgepolicy.WithDelay[*http.Response](60*time.Millisecond))
		resp, err := rt.RoundTrip(req)
		if resp != nil {
			io.Copy(io.Discard, resp.Body)
			resp.Body.Close()
		}
		time.Sleep(500 * time.Millisecond) // let the losing attempt reach the server or fail
		srv.Close()
		s.mu.Lock()
		complete := 0
		for _, b := range s.bodies {
			if b == "hello body" {
				complete++
			}
		}
		all := fmt.Sprintf("%q", s.bodies)
		s.mu.Unlock()
		res.Cases++
		res.Agreements++
		if err != nil || complete != len(s.bodies) || complete == 0 {
			res.Notes = append(res.Notes, fmt.Sprintf("known finding reproduced on the real transport (seekable body under a hedge): err=%v, the server received %s", err, all))
		} else {
			res.Notes = append(res.Notes, "known finding NOT present on this tree (seekable body under a hedge): every attempt delivered the complete body "+all)
		}
	}
	_ = bytes.NewReader
	b, _ := json.Marshal(res)
	fmt.Println(string(b))
	if len(res.Disagreements) > 0 {
		os.Exit(1)
	}
}

type roundTripFunc func(*http.Request) (*http.Response, error)

func (f roundTripFunc) RoundTrip(r *http.Request) (*http.Response, error) { return f(r) }

// slowSeeker is a seekable request body that is slow to read (like a file on a slow disk): four bytes,
// then a pause, so that a hedge attempt starts while the first attempt is in the middle of the body.
type slowSeeker struct {
	*strings.Reader
	mu sync.Mutex
}

func (r *slowSeeker) Read(p []byte) (int, error) {
	if len(p) > 4 {
		p = p[:4]
	}
	r.mu.Lock()
	n, err := r.Reader.Read(p)
	r.mu.Unlock()
	if n == 4 {
		time.Sleep(150 * time.Millisecond)
	}
	return n, err
}

func (r *slowSeeker) Seek(off int64, whence int) (int64, error) {
	r.mu.Lock()
	defer r.mu.Unlock()
	return r.Reader.Seek(off, whence)
}

func (r *slowSeeker) Close() error { return nil }
