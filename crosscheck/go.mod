module verif/crosscheck

go 1.23

require github.com/failsafe-go/failsafe-go v0.0.0

replace github.com/failsafe-go/failsafe-go => /repo
