#!/bin/bash
# usage: run.sh <property|litmus|build> [quick|thorough]
# Instruments the current working tree of the repository (VERIF_REPO, default /repo), builds the
# harness against it with `go build -overlay` and runs the check. Build products are cached under
# /verif/.cache keyed by a hash of every input, so an unchanged tree is not rebuilt.
set -u
export GOFLAGS=-mod=mod GOPROXY=off GOSUMDB=off GOTOOLCHAIN=local
VERIF="$(cd "$(dirname "$0")" && pwd)"
REPO="${VERIF_REPO:-/repo}"
REPO="$(cd "$REPO" && pwd)"
PROP="${1:-}"
TIER="${2:-${VERIF_TIER:-quick}}"
[ -z "$PROP" ] && { echo "usage: run.sh <property> [quick|thorough]"; exit 2; }
CACHE="$VERIF/.cache"
mkdir -p "$CACHE"

hash_inputs() {
  ( cd "$REPO" && find . -name '*.go' -not -name '*_test.go' -not -path './examples/*' -not -path './test/*' -not -path './.git/*' -print0 | sort -z | xargs -0 sha256sum
    cd "$REPO" && sha256sum go.mod go.sum
    cd "$VERIF" && find rt harness tools crosscheck \( -name '*.go' -o -name 'go.mod' \) -print0 | sort -z | xargs -0 sha256sum
    echo "$REPO"; go version ) | sha256sum | cut -c1-20
}

KEY="$(hash_inputs)"
DIR="$CACHE/$KEY"
RACE=0
case "$PROP" in C14) RACE=1;; esac
[ "${VERIF_RACE:-0}" = 1 ] && RACE=1
BIN="$DIR/vcheck"; [ $RACE = 1 ] && BIN="$DIR/vcheck-race"

build() {
  mkdir -p "$DIR"
  # instrumenter (own cache key)
  TKEY="$(cd "$VERIF/tools/instrument" && cat main.go go.mod | sha256sum | cut -c1-16)"
  INST="$CACHE/instrument-$TKEY"
  if [ ! -x "$INST" ]; then
    (cd "$VERIF/tools/instrument" && go build -o "$INST" .) || { echo "INFRA: cannot build the instrumenter"; exit 2; }
  fi
  if [ ! -f "$DIR/overlay.json" ]; then
    "$INST" -repo "$REPO" -out "$DIR" -rt "$VERIF/rt" > "$DIR/instrument.log" 2>&1 || { cat "$DIR/instrument.log"; echo "INFRA: instrumentation failed"; rm -rf "$DIR"; exit 2; }
  fi
  sed "s|=> /repo|=> $REPO|" "$VERIF/harness/go.mod" > "$DIR/go.mod"
  cp "$REPO/go.sum" "$DIR/go.sum"
  FLAGS=""; [ $RACE = 1 ] && FLAGS="-race"
  (cd "$VERIF/harness" && go build $FLAGS -modfile="$DIR/go.mod" -overlay "$DIR/overlay.json" -o "$BIN" .) > "$DIR/build.log" 2>&1 || { cat "$DIR/build.log"; echo "INFRA: harness build failed"; exit 2; }
  # the cross-check of the fake transport runs against the UNINSTRUMENTED library (no overlay)
  sed "s|=> /repo|=> $REPO|" "$VERIF/crosscheck/go.mod" > "$DIR/crosscheck.mod"
  cp "$REPO/go.sum" "$DIR/crosscheck.sum"
  (cd "$VERIF/crosscheck" && go build -modfile="$DIR/crosscheck.mod" -o "$DIR/crosscheck" .) >> "$DIR/build.log" 2>&1 || { cat "$DIR/build.log"; echo "INFRA: crosscheck build failed"; exit 2; }
  # keep the cache small: newest 8 build directories (never one used in the last 15 minutes)
  for d in $(ls -1dt "$CACHE"/*/ 2>/dev/null | tail -n +9); do
    [ -n "$(find "$d" -maxdepth 0 -mmin +15)" ] && rm -rf "$d"
  done
}

[ -x "$BIN" ] || build
touch "$DIR"

case "$PROP" in
  build) exit 0;;
  litmus)
    if [ $RACE = 1 ]; then GORACE="log_path=$DIR/racelog halt_on_error=0 exitcode=0" "$BIN" litmus -v; rc=$?; rm -f "$DIR"/racelog.*; exit $rc; fi
    exec "$BIN" litmus -v;;
  replay) exec "$BIN" replay "$2";;
  *)
    if [ $RACE = 1 ]; then
      GORACE="log_path=$DIR/racelog-parent halt_on_error=0 exitcode=0" VERIF_DIR="$VERIF" "$BIN" check "$PROP" --tier "$TIER"; rc=$?
      rm -f "$DIR"/racelog-parent.*
      exit $rc
    fi
    VERIF_CROSSCHECK="$DIR/crosscheck" VERIF_DIR="$VERIF" exec "$BIN" check "$PROP" --tier "$TIER";;
esac
