#!/bin/bash
# runs every claimed check (default: quick) and prints one line each; exit 1 if any is not clean
tier=${1:-quick}
rc=0
for p in $(python3 -c "import json;print(' '.join(c['property_id'] for c in json.load(open('/verif/MANIFEST.json'))['checks']))"); do
  out=$(./run.sh $p $tier 2>&1); e=$?
  echo "exit=$e $(echo "$out" | tail -1 | cut -c1-230)"
  [ $e -ne 0 ] && { rc=1; echo "$out" | grep -E "^(VIOLATION|INFRA|  )" | head -6; }
done
exit $rc
