// Package vtime provides the virtual-clock replacements for the clock- and timer-related parts
// of package time. The instrumenter redirects only these names; every other time.X stays real.
package vtime

import (
	"time"

	"github.com/failsafe-go/failsafe-go/verifrt/vrt"
)

// Lib tells timers created through this package apart from harness timers (leak oracle).
const lib = true

func Now() time.Time { return time.Unix(0, vrt.Now()) }

func Since(t time.Time) time.Duration { return Now().Sub(t) }

func Until(t time.Time) time.Duration { return t.Sub(Now()) }

func Sleep(d time.Duration) {
	if d <= 0 {
		return
	}
	if !vrt.Active() {
		return
	}
	tm := vrt.NewTimer(int64(d), lib)
	vrt.RecvPoint(tm.C)
	<-tm.C
}

type Timer struct {
	C <-chan time.Time
	t *vrt.Timer
}

func NewTimer(d time.Duration) *Timer {
	t := vrt.NewTimer(int64(d), lib)
	return &Timer{C: t.C, t: t}
}

func AfterFunc(d time.Duration, f func()) *Timer {
	return &Timer{t: vrt.AfterFunc(int64(d), lib, f)}
}

func After(d time.Duration) <-chan time.Time { return NewTimer(d).C }

func (t *Timer) Stop() bool { return t.t.Stop() }

func (t *Timer) Reset(d time.Duration) bool { return t.t.Reset(int64(d)) }

// Ticker: a chain of one-shot virtual timers re-armed on each receive is not needed by the
// library today; a ticker is modelled as a timer that re-arms itself when it fires.
type Ticker struct {
	C <-chan time.Time
	t *vrt.Timer
}

func NewTicker(d time.Duration) *Ticker {
	if d <= 0 {
		panic("non-positive interval for NewTicker")
	}
	t := vrt.NewTicker(int64(d), lib)
	return &Ticker{C: t.C, t: t}
}

func Tick(d time.Duration) <-chan time.Time {
	if d <= 0 {
		return nil
	}
	return NewTicker(d).C
}

func (t *Ticker) Stop() { t.t.Stop() }

func (t *Ticker) Reset(d time.Duration) { t.t.ResetTicker(int64(d)) }
