//go:build race

package vrt

import "runtime"

const RaceBuild = true

// The baton travels through channels whose synchronisation events are hidden from the race
// detector, so that only the library's own synchronisation orders its memory accesses.

//go:norace
func giveBaton(t *thread) {
	runtime.RaceDisable()
	t.wake <- struct{}{}
	runtime.RaceEnable()
}

//go:norace
func waitSched() {
	runtime.RaceDisable()
	<-sWake
	runtime.RaceEnable()
}

//go:norace
func signalSched() {
	runtime.RaceDisable()
	sWake <- struct{}{}
	runtime.RaceEnable()
}

//go:norace
func waitBaton(t *thread) {
	runtime.RaceDisable()
	<-t.wake
	runtime.RaceEnable()
}

func raceDisable() { runtime.RaceDisable() }
func raceEnable()  { runtime.RaceEnable() }
