//go:build !race

package vrt

const RaceBuild = false

func giveBaton(t *thread) { t.wake <- struct{}{} }
func waitSched()          { <-sWake }
func signalSched()        { sWake <- struct{}{} }
func waitBaton(t *thread) { <-t.wake }
func raceDisable()        {}
func raceEnable()         {}
