// Package vrt is the virtual runtime under which the instrumented failsafe-go library and the
// verification harnesses run. Exactly one goroutine (a "thread") runs at a time; every visible
// operation (lock, atomic, channel operation, select, context read/cancel, timer stop) is preceded
// by a gate at which the scheduler goroutine decides who runs next. Time is virtual.
//
// Discipline for the race build (see DESIGN.md §3.5): the baton is handed over through channel
// operations wrapped in runtime.RaceDisable/RaceEnable, so the race detector sees only the
// library's own synchronisation. Memory shared between threads and the scheduler (the mailbox,
// timers, the log) is only touched from //go:norace functions.
package vrt

import (
	"fmt"
	"os"
	"reflect"
	"runtime"
	"runtime/debug"
	"strconv"
	"strings"
	"sync"
	"sync/atomic"
	"time"
	"unsafe"
)

type OpKind uint8

const (
	OpNone OpKind = iota
	OpStart
	OpPoint
	OpLock
	OpRLock
	OpRecv
	OpSend
	OpSelect
	OpChoose
	OpTimerWait
	OpWGWait
	OpCondWait
	OpExit
)

var opNames = [...]string{"none", "start", "point", "lock", "rlock", "recv", "send", "select", "choose", "timerwait", "wgwait", "condwait", "exit"}

func (k OpKind) String() string { return opNames[k] }

// Case is one communication clause of a select.
type Case struct {
	Send bool
	Ch   any
}

func R(ch any) Case { return Case{false, ch} }
func W(ch any) Case { return Case{true, ch} }

type noteKind uint8

const (
	noteUnlock noteKind = iota
	noteRUnlock
	noteThread
	noteTimer
)

type note struct {
	kind noteKind
	obj  unsafe.Pointer
	t    *thread
	tm   *Timer
}

type mail struct {
	kind   OpKind
	obj    unsafe.Pointer
	ch     any
	cases  []Case
	hasDef bool
	n      int
	tag    string // what the point is (for replay listings)
	where  string
	sel    int
	slot   bool // perform the channel operation through the rendezvous slot instead of the real channel
	notes  []note
}

// H is a 128-bit hash of a happens-before prefix (an event together with all its causes).
type H struct{ A, B uint64 }

func mix64(x uint64) uint64 {
	x += 0x9e3779b97f4a7c15
	x = (x ^ (x >> 30)) * 0xbf58476d1ce4e5b9
	x = (x ^ (x >> 27)) * 0x94d049bb133111eb
	return x ^ (x >> 31)
}

func (h H) mix(x uint64) H {
	return H{mix64(h.A ^ mix64(x)), mix64(h.B + mix64(x^0x5851f42d4c957f2d))}
}

func (h H) mixH(o H) H { return h.mix(o.A).mix(o.B) }

type thread struct {
	h        H // hash of this thread's last event (with its causal past)
	id       int
	creator  int // id of the thread that spawned this one
	spawnSeq int // position in the order of all spawns of this execution
	name     string
	lib      bool
	wake     chan struct{}
	mail     mail
	done     bool
	started  bool
	poison   bool
	held     []unsafe.Pointer // write locks granted to this thread and not yet noted as released
	exiting  bool
	fired    bool // for AfterFunc callback threads
	// unbuffered rendezvous: the scheduler has paired this (receiving) thread with a sender
	committed bool
	forcedSel int
	timer     *Timer
	user      int // depth of user-code sections entered on this thread
}

const (
	tmPending = iota
	tmFired
	tmStopped
)

// Timer is the scheduler-side representation of a virtual timer.
type Timer struct {
	when   int64
	seq    int
	state  int
	lib    bool
	C      chan time.Time
	cb     *thread
	where  string
	period int64
	h      H
}

// Decision is one recorded choice point of an execution.
type Decision struct {
	N      int    // number of alternatives
	Chosen int    // alternative taken
	Costly bool   // alternatives other than 0 cost one deviation
	Kind   string // "sched", "select", "choose"
	Desc   string // only in verbose mode
}

type Choice struct {
	C int
	N int
}

type Options struct {
	// OnPoint, if set, is called at every recorded decision point with the fingerprint of the
	// current state (the happens-before hash of everything executed so far); returning false
	// abandons the execution (Result.Pruned).
	OnPoint    func(idx int, fp H) bool
	Prefix     []Choice
	Horizon    int   // max scheduler steps (0 = default)
	Epoch      int64 // unix nanos at start
	Verbose    bool  // record descriptions
	LeakOracle bool
}

type Result struct {
	Trace      []Decision
	Log        []string
	Steps      int
	End        int64 // virtual nanos since epoch at the end
	Panic      string
	Fail       string
	LateFail   string // a failure recorded by FailLater
	Deadlock   string
	Leaks      []string
	HorizonHit bool
	Diverged   string
	Threads    int
	Listing    []string // verbose step listing
	Switches   int      // context switches between different threads
	Pruned     bool
}

type lockSt struct {
	writer  *thread
	readers int
}

type exec struct {
	o        Options
	threads  []*thread
	cur      *thread // thread holding the baton (or last to hold it)
	now      int64
	timers   []*Timer
	spawned  int // threads spawned so far (spawn order is independent of when the scheduler registers them)
	seq      int
	pos      int
	locks    map[unsafe.Pointer]*lockSt
	res      *Result
	mainDone bool
	userCnt  int // number of user-code sections in progress (all threads)
	frozen   bool
	abort    string
	log      []string
	failMsg  string
	lateFail string
	panicMsg string
	lastRun  *thread
	subject  *thread // thread whose sub-decision is being taken
	firedH   H       // commutative sum of the causal hashes of timer firings
	optBuf   []option
	draws    int
	objH     map[uintptr]H
	noteOrd  uint64
}

// ex is the current execution; nil when no execution is active (pass-through mode).
var ex *exec

var sWake = make(chan struct{}, 1)

var progress atomic.Int64

const DefaultEpoch int64 = 1_700_000_000_000_000_000 // a multiple of 1e11 ns, so bucket boundaries are round

//go:norace
func Active() bool { return ex != nil }

// Execute runs main as thread 0 under the scheduler and returns what happened.
// execGen counts executions; shims that stand in for process-wide state (sync.Pool) use it to start
// every execution from the same empty state.
var execGen atomic.Uint64

func ExecGen() uint64 { return execGen.Load() }

func Execute(o Options, main func()) *Result {
	if ex != nil {
		panic("vrt: nested Execute")
	}
	if o.Horizon == 0 {
		o.Horizon = 20000
	}
	if o.Epoch == 0 {
		o.Epoch = DefaultEpoch
	}
	e := &exec{o: o, locks: map[unsafe.Pointer]*lockSt{}, res: &Result{Trace: make([]Decision, 0, 128)}, now: o.Epoch, objH: map[uintptr]H{}, optBuf: make([]option, 0, 8)}
	execGen.Add(1)
	startWatchdog()
	slotMu.Lock()
	slots = map[uintptr][]any{}
	slotMu.Unlock()
	setEx(e)
	t := e.newThread("main", false)
	t.mail.kind = OpStart
	e.register(t)
	go threadMain(t, func() { main(); markMainDone() })
	// Inside the loop the scheduler's own synchronisation events (timer sends, channel peeks) are
	// hidden from the race detector; it must not use fmt or other sync.Pool-backed helpers there.
	raceDisable()
	e.loop()
	raceEnable()
	e.analyse()
	e.teardown()
	e.finish()
	setEx(nil)
	return e.res
}

//go:norace
func setEx(e *exec) { ex = e }

//go:norace
func markMainDone() { ex.mainDone = true }

//go:norace
func (e *exec) newThread(name string, lib bool) *thread {
	return &thread{name: name, lib: lib, wake: make(chan struct{}, 1), creator: -1, spawnSeq: -1}
}

func (e *exec) register(t *thread) {
	t.id = len(e.threads)
	e.threads = append(e.threads, t)
}

//go:norace
func threadMain(t *thread, fn func()) {
	waitBaton(t)
	if t.poison {
		t.exiting = true
		signalSched()
		return
	}
	defer threadExit(t)
	fn()
}

// threadExit is the deferred epilogue of every thread (a named function: closures do not inherit
// the norace pragma).
//
//go:norace
func threadExit(t *thread) {
	if r := recover(); r != nil {
		if ex != nil && ex.panicMsg == "" {
			ex.panicMsg = "panic in thread " + strconv.Itoa(t.id) + " (" + t.name + "): " + panicString(r) + "\n" + trimStack(debug.Stack())
		}
	}
	t.mail.kind = OpExit
	signalSched()
}

func panicString(r any) string {
	switch x := r.(type) {
	case error:
		return x.Error()
	case string:
		return x
	}
	return fmt.Sprint(r)
}

func trimStack(b []byte) string {
	lines := strings.Split(string(b), "\n")
	var out []string
	for _, l := range lines {
		if strings.Contains(l, "failsafe-go") || strings.Contains(l, "harness") {
			out = append(out, strings.TrimSpace(l))
		}
		if len(out) > 24 {
			break
		}
	}
	return strings.Join(out, "\n")
}

// ---- scheduler loop (runs on the goroutine that called Execute) ----

type option struct {
	t  *thread
	tm *Timer
}

//go:norace
func (e *exec) loop() {
	for {
		if e.panicMsg != "" || e.failMsg != "" || e.abort != "" {
			return
		}
		e.res.Steps++
		if e.res.Steps > e.o.Horizon {
			e.res.HorizonHit = true
			return
		}
		// (re-evaluated at every step: an attempt that was started at the very instant the execution
		// returned may enter user code after the caller has finished; time moves again while it runs)
		e.frozen = e.o.LeakOracle && e.mainDone && e.userCnt == 0
		opts, curEnabled := e.options()
		if len(opts) == 0 {
			if e.advance() {
				continue
			}
			return
		}
		i := 0
		if len(opts) > 1 {
			i = e.pick(len(opts), curEnabled, "sched", func() string { return e.descOpts(opts) })
			if i < 0 {
				return
			}
		}
		o := opts[i]
		if o.tm != nil {
			e.fire(o.tm)
			continue
		}
		if !e.runThread(o.t) {
			return
		}
	}
}

//go:norace
func (e *exec) options() ([]option, bool) {
	opts := e.optBuf[:0]
	curEnabled := false
	if e.cur != nil && !e.cur.done && e.enabled(e.cur) {
		opts = append(opts, option{t: e.cur})
		curEnabled = true
	}
	for _, t := range e.threads {
		if t == e.cur || t.done {
			continue
		}
		if e.enabled(t) {
			opts = append(opts, option{t: t})
		}
	}
	live := e.timers[:0]
	for _, tm := range e.timers {
		if tm.state != tmPending {
			continue
		}
		live = append(live, tm)
	}
	e.timers = live
	for _, tm := range e.timers {
		if tm.when <= e.now {
			opts = append(opts, option{tm: tm})
		}
	}
	if !curEnabled {
		e.cur = nil
	}
	e.optBuf = opts
	return opts, curEnabled
}

//go:norace
func (e *exec) advance() bool {
	if e.frozen {
		return false
	}
	var min int64 = -1
	for _, tm := range e.timers {
		if tm.state == tmPending && (min == -1 || tm.when < min) {
			min = tm.when
		}
	}
	if min == -1 {
		return false
	}
	if min > e.now {
		e.now = min
	}
	return true
}

//go:norace
func (e *exec) fire(tm *Timer) {
	tm.state = tmFired
	if tm.period > 0 {
		tm.state = tmPending
		tm.when += tm.period
	}
	if e.o.Verbose {
		e.res.Listing = append(e.res.Listing, "t="+strconv.FormatInt(e.now-e.o.Epoch, 10)+" fire timer#"+strconv.Itoa(tm.seq)+" ("+tm.where+")")
	}
	h := tm.h.mix(0xf12e).mix(uint64(tm.when))
	k1 := uintptr(unsafe.Pointer(tm))
	h = h.mixH(e.objH[k1])
	var k2 uintptr
	if tm.C != nil {
		k2 = chanKey(tm.C)
		h = h.mixH(e.objH[k2])
		e.objH[k2] = h
	}
	e.objH[k1] = h
	e.firedH.A += mix64(h.A)
	e.firedH.B += mix64(h.B ^ 0x77)
	if tm.cb != nil {
		tm.cb.fired = true
		tm.cb.h = tm.cb.h.mixH(h)
		return
	}
	select {
	case tm.C <- time.Unix(0, e.now):
	default:
	}
}

//go:norace
func (e *exec) pick(n int, costly bool, kind string, desc func() string) int {
	c := 0
	if e.pos < len(e.o.Prefix) {
		p := e.o.Prefix[e.pos]
		if p.N != n || p.C >= n {
			e.abort = "replay divergence at decision " + strconv.Itoa(e.pos) + ": recorded " + strconv.Itoa(p.C) + "/" + strconv.Itoa(p.N) + ", now " + strconv.Itoa(n) + " alternatives"
			e.res.Diverged = e.abort
			return -1
		}
		c = p.C
	}
	if e.o.OnPoint != nil && e.pos >= len(e.o.Prefix) {
		fp := e.fingerprint()
		if kind != "sched" {
			// a sub-decision of the thread about to run (ready select case, data choice): the state is
			// the one of the scheduling decision just taken plus "this thread was chosen"
			fp = fp.mix(0x5b).mixH(e.subject.h).mix(uint64(e.subject.mail.kind))
		}
		if !e.o.OnPoint(e.pos, fp) {
			e.abort = "pruned"
			e.res.Pruned = true
			return -1
		}
	}
	e.pos++
	d := Decision{N: n, Chosen: c, Costly: costly, Kind: kind}
	if e.o.Verbose {
		d.Desc = desc()
	}
	e.res.Trace = append(e.res.Trace, d)
	return c
}

//go:norace
func (e *exec) descOpts(opts []option) string {
	s := ""
	for i, o := range opts {
		if i > 0 {
			s += " | "
		}
		if o.t != nil {
			s += "T" + strconv.Itoa(o.t.id) + ":" + o.t.mail.kind.String()
		} else {
			s += "timer#" + strconv.Itoa(o.tm.seq)
		}
	}
	return s
}

//go:norace
func (e *exec) enabled(t *thread) bool {
	m := &t.mail
	switch m.kind {
	case OpStart, OpPoint, OpChoose:
		return true
	case OpLock:
		st := e.locks[m.obj]
		return st == nil || (st.writer == nil && st.readers == 0)
	case OpRLock:
		st := e.locks[m.obj]
		return st == nil || st.writer == nil
	case OpRecv:
		return t.committed || e.recvReady(t, m.ch)
	case OpSend:
		return e.sendReady(t, m.ch)
	case OpSelect:
		if m.hasDef || t.committed {
			return true
		}
		for _, c := range m.cases {
			if c.Send && e.sendReady(t, c.Ch) || !c.Send && e.recvReady(t, c.Ch) {
				return true
			}
		}
		return false
	case OpTimerWait:
		return t.fired
	case OpWGWait:
		return wgReady(m.obj)
	case OpCondWait:
		return condReady(m.obj, m.n)
	}
	return false
}

func isUnbuffered(ch any) bool {
	v := reflect.ValueOf(ch)
	return v.IsValid() && !v.IsNil() && v.Cap() == 0
}

func isClosed(ch any) bool {
	v := reflect.ValueOf(ch)
	if !v.IsValid() || v.IsNil() || v.Type().ChanDir()&reflect.RecvDir == 0 || v.Len() > 0 {
		return false
	}
	x, ok := v.TryRecv()
	if ok {
		panic("vrt: peek consumed an element")
	}
	return x.IsValid()
}

// partners returns the threads (other than self) waiting at a gate with an interest in the
// opposite operation on the unbuffered channel ch.
//
//go:norace
func (e *exec) partners(self *thread, ch any, wantSend bool) []*thread {
	key := chanKey(ch)
	var out []*thread
	for _, t := range e.threads {
		if t == self || t.done || t.committed {
			continue
		}
		m := &t.mail
		switch m.kind {
		case OpSend:
			if wantSend && chanKey(m.ch) == key {
				out = append(out, t)
			}
		case OpRecv:
			if !wantSend && chanKey(m.ch) == key {
				out = append(out, t)
			}
		case OpSelect:
			for _, c := range m.cases {
				if c.Send == wantSend && chanKey(c.Ch) == key {
					out = append(out, t)
					break
				}
			}
		}
	}
	return out
}

//go:norace
func (e *exec) recvReady(self *thread, ch any) bool {
	v := reflect.ValueOf(ch)
	if !v.IsValid() || v.IsNil() {
		return false
	}
	if v.Len() > 0 {
		return true
	}
	if isClosed(ch) {
		return true
	}
	if v.Cap() == 0 {
		return len(e.partners(self, ch, true)) > 0
	}
	return false
}

//go:norace
func (e *exec) sendReady(self *thread, ch any) bool {
	v := reflect.ValueOf(ch)
	if !v.IsValid() || v.IsNil() {
		return false
	}
	if v.Cap() == 0 {
		return isClosed(ch) || len(e.partners(self, ch, false)) > 0
	}
	return v.Len() < v.Cap() || isClosed(ch)
}

//go:norace
func unsupported(what string) {
	if ex != nil && ex.abort == "" {
		ex.abort = "unsupported construct under vrt: " + what
	}
}

// fingerprint identifies the current state up to reordering of independent events: the sum of
// the scrambled per-thread causal hashes, the thread that holds the baton, and the clock.
//
//go:norace
func (e *exec) fingerprint() H {
	var f H
	for _, t := range e.threads {
		x := t.h
		if t.done {
			x = x.mix(1)
		}
		f.A += mix64(x.A)
		f.B += mix64(x.B ^ 0x1234567)
	}
	f = f.mixH(e.firedH)
	if e.cur != nil {
		f = f.mixH(e.cur.h)
	}
	return f.mix(uint64(e.now)).mix(uint64(len(e.threads)))
}

func chanKey(ch any) uintptr {
	v := reflect.ValueOf(ch)
	if !v.IsValid() || v.IsNil() {
		return 0
	}
	return v.Pointer()
}

// ctxKey is the single object all context operations are taken to touch (cancellation of one
// context reaches the Done channels of its descendants, which the scheduler cannot enumerate).
const ctxKey = ^uintptr(0)
const miscKey = ^uintptr(1)

func isDoneChan(ch any) bool {
	v := reflect.ValueOf(ch)
	return v.IsValid() && v.Kind() == reflect.Chan && v.Type().ChanDir() == reflect.RecvDir && v.Type().Elem().Size() == 0
}

// event computes the causal hash of the operation t is about to perform and chains it into every
// object the operation touches.
//
//go:norace
func (e *exec) event(t *thread, sel int) {
	m := &t.mail
	var objs [8]uintptr
	n := 0
	add := func(k uintptr) {
		if k != 0 && n < len(objs) {
			objs[n] = k
			n++
		}
	}
	switch m.kind {
	case OpLock, OpRLock, OpWGWait, OpCondWait:
		add(uintptr(m.obj))
	case OpRecv, OpSend:
		add(chanKey(m.ch))
		if isDoneChan(m.ch) {
			add(ctxKey)
		}
	case OpSelect:
		for _, c := range m.cases {
			add(chanKey(c.Ch))
			if isDoneChan(c.Ch) {
				add(ctxKey)
			}
		}
	case OpPoint:
		switch {
		case m.obj != nil:
			add(uintptr(m.obj))
		case m.tag == "ctx.Err" || m.tag == "cancel" || m.tag == "ctx.Cause":
			add(ctxKey)
		case m.ch != nil:
			add(chanKey(m.ch))
		default:
			add(miscKey)
		}
	}
	h := t.h.mix(uint64(m.kind)).mix(uint64(int64(sel))).mix(uint64(m.n))
	for i := 0; i < n; i++ {
		h = h.mixH(e.objH[objs[i]])
	}
	t.h = h
	for i := 0; i < n; i++ {
		e.objH[objs[i]] = h
	}
	e.noteOrd = 0
}

// runThread hands the baton to t and waits for it to come back. Returns false if the execution must stop.
//
//go:norace
func (e *exec) runThread(t *thread) bool {
	m := &t.mail
	sel := 0
	e.subject = t
	m.slot = false
	if t.committed {
		// the receiving half of a rendezvous arranged earlier: take the value from the slot
		t.committed = false
		m.slot = true
		return e.resume(t, t.forcedSel)
	}
	switch m.kind {
	case OpSend:
		if isUnbuffered(m.ch) && !isClosed(m.ch) {
			return e.rendezvous(t, 0, m.ch, nil, 0)
		}
	case OpRecv:
		if isUnbuffered(m.ch) && !isClosed(m.ch) {
			return e.rendezvous(nil, 0, m.ch, t, 0)
		}
	case OpLock:
		st := e.locks[m.obj]
		if st == nil {
			st = &lockSt{}
			e.locks[m.obj] = st
		}
		st.writer = t
		t.addHeld(m.obj)
	case OpRLock:
		st := e.locks[m.obj]
		if st == nil {
			st = &lockSt{}
			e.locks[m.obj] = st
		}
		st.readers++
	case OpSelect:
		var ready []int
		for i, c := range m.cases {
			if c.Send && e.sendReady(t, c.Ch) || !c.Send && e.recvReady(t, c.Ch) {
				ready = append(ready, i)
			}
		}
		switch len(ready) {
		case 0:
			sel = -1
		case 1:
			sel = ready[0]
		default:
			k := e.pick(len(ready), false, "select", func() string {
				return "T" + strconv.Itoa(t.id) + " select among " + strconv.Itoa(len(ready)) + " ready cases"
			})
			if k < 0 {
				return false
			}
			sel = ready[k]
		}
		if sel >= 0 {
			if c := m.cases[sel]; isUnbuffered(c.Ch) && !isClosed(c.Ch) {
				if c.Send {
					return e.rendezvous(t, sel, c.Ch, nil, 0)
				}
				return e.rendezvous(nil, 0, c.Ch, t, sel)
			}
		}
	case OpChoose:
		if m.n > 1 {
			k := e.pick(m.n, false, "choose", func() string { return "T" + strconv.Itoa(t.id) + " choose(" + strconv.Itoa(m.n) + ") " + m.tag })
			if k < 0 {
				return false
			}
			sel = k
		}
	case OpCondWait:
		condConsume(m.obj, m.n)
	}
	return e.resume(t, sel)
}

// rendezvous pairs a sender and a receiver on an unbuffered channel. Exactly one of snd / rcv is
// given (the thread the scheduler chose to run); the partner is chosen among the threads waiting
// with the opposite interest. The sender runs now and deposits its value in the slot; the receiver
// is committed to its case and takes the value when it is next scheduled.
//
//go:norace
func (e *exec) rendezvous(snd *thread, sndSel int, ch any, rcv *thread, rcvSel int) bool {
	chosen := snd
	if chosen == nil {
		chosen = rcv
	}
	cands := e.partners(chosen, ch, snd == nil)
	if len(cands) == 0 {
		e.abort = "vrt: rendezvous without partner"
		return false
	}
	k := 0
	if len(cands) > 1 {
		k = e.pick(len(cands), false, "rendezvous", func() string { return "T" + strconv.Itoa(chosen.id) + " rendezvous partner" })
		if k < 0 {
			return false
		}
	}
	p := cands[k]
	if snd == nil {
		snd, sndSel = p, caseOf(p, ch, true)
	} else {
		rcv, rcvSel = p, caseOf(p, ch, false)
	}
	rcv.committed, rcv.forcedSel = true, rcvSel
	snd.mail.slot = true
	return e.resume(snd, sndSel)
}

//go:norace
func caseOf(t *thread, ch any, send bool) int {
	if t.mail.kind != OpSelect {
		return 0
	}
	key := chanKey(ch)
	for i, c := range t.mail.cases {
		if c.Send == send && chanKey(c.Ch) == key {
			return i
		}
	}
	return 0
}

// resume hands the baton to t (which performs its pending operation with selection sel) and waits
// for it to come back.
//
//go:norace
func (e *exec) resume(t *thread, sel int) bool {
	m := &t.mail
	m.sel = sel
	e.event(t, sel)
	if e.lastRun != nil && e.lastRun != t {
		e.res.Switches++
	}
	e.lastRun = t
	if e.o.Verbose {
		e.res.Listing = append(e.res.Listing, "t="+strconv.FormatInt(e.now-e.o.Epoch, 10)+" T"+strconv.Itoa(t.id)+"("+t.name+") "+m.kind.String()+" "+m.tag+" sel="+strconv.Itoa(sel)+" @"+m.where)
	}
	e.cur = t
	t.started = true
	progress.Add(1)
	giveBaton(t)
	waitSched()
	// the thread is back at a gate (or exited): process what it did meanwhile
	e.processNotes(t)
	if m.kind == OpExit {
		t.done = true
		e.userCnt -= t.user
		t.user = 0
	}
	return true
}

//go:norace
//go:norace
func (t *thread) addHeld(obj unsafe.Pointer) {
	for _, o := range t.held {
		if o == obj {
			return
		}
	}
	t.held = append(t.held, obj)
}

//go:norace
func (t *thread) dropHeld(obj unsafe.Pointer) {
	for i, o := range t.held {
		if o == obj {
			t.held = append(t.held[:i], t.held[i+1:]...)
			return
		}
	}
}

func (e *exec) processNotes(t *thread) {
	m := &t.mail
	for _, n := range m.notes {
		switch n.kind {
		case noteUnlock:
			if st := e.locks[n.obj]; st != nil {
				st.writer = nil
			}
			t.dropHeld(n.obj)
		case noteRUnlock:
			if st := e.locks[n.obj]; st != nil && st.readers > 0 {
				st.readers--
			}
		case noteThread:
			e.noteOrd++
			n.t.h = t.h.mix(0x7431).mix(e.noteOrd)
			e.register(n.t)
		case noteTimer:
			e.noteOrd++
			e.seq++
			n.tm.seq = e.seq
			if n.tm.h == (H{}) {
				n.tm.h = t.h.mix(0x7132).mix(e.noteOrd)
			}
			e.timers = append(e.timers, n.tm)
		}
	}
	m.notes = m.notes[:0]
}

// solo is the fast path of a gate: when the calling thread is the only live thread and no timer
// is overdue, the scheduler would have exactly one option (this thread), so the gate is passed
// without handing the baton over. It performs what the scheduler would have done (lock table,
// causal hash, step count). Not used in the race build (scheduler-private maps would be touched
// from thread goroutines) nor in verbose mode.
//
//go:norace
func (e *exec) solo(t *thread) bool {
	if RaceBuild || e.o.Verbose || t.committed || e.frozen {
		return false
	}
	m := &t.mail
	e.processNotes(t)
	for _, o := range e.threads {
		if o != t && !o.done {
			return false
		}
	}
	for _, tm := range e.timers {
		if tm.state == tmPending && tm.when <= e.now {
			return false
		}
	}
	switch m.kind {
	case OpPoint:
	case OpLock:
		st := e.locks[m.obj]
		if st != nil && (st.writer != nil || st.readers > 0) {
			return false
		}
		if st == nil {
			st = &lockSt{}
			e.locks[m.obj] = st
		}
		st.writer = t
		t.addHeld(m.obj)
	case OpRLock:
		st := e.locks[m.obj]
		if st != nil && st.writer != nil {
			return false
		}
		if st == nil {
			st = &lockSt{}
			e.locks[m.obj] = st
		}
		st.readers++
	case OpRecv:
		if isUnbuffered(m.ch) && !isClosed(m.ch) || !e.recvReady(t, m.ch) {
			return false
		}
	case OpSend:
		if isUnbuffered(m.ch) || !e.sendReady(t, m.ch) {
			return false
		}
	case OpSelect:
		ready, idx := 0, -1
		for i, c := range m.cases {
			if isUnbuffered(c.Ch) && !isClosed(c.Ch) {
				return false
			}
			if c.Send && e.sendReady(t, c.Ch) || !c.Send && e.recvReady(t, c.Ch) {
				ready++
				idx = i
			}
		}
		if ready > 1 || ready == 0 && !m.hasDef {
			return false
		}
		m.sel = idx
		e.res.Steps++
		if e.res.Steps > e.o.Horizon {
			return false
		}
		e.event(t, idx)
		return true
	default:
		return false
	}
	e.res.Steps++
	if e.res.Steps > e.o.Horizon {
		return false
	}
	m.sel = 0
	e.event(t, 0)
	return true
}

//go:norace
func (e *exec) teardown() {
	for _, t := range e.threads {
		if t.done {
			continue
		}
		t.poison = true
		e.cur = t
		giveBaton(t)
		waitSched()
		t.done = true
	}
}

//go:norace
func (e *exec) finish() {
	r := e.res
	r.Log = e.log
	r.End = e.now - e.o.Epoch
	r.Panic = e.panicMsg
	r.Fail = e.failMsg
	r.LateFail = e.lateFail
	r.Threads = len(e.threads)
	if e.abort != "" && r.Diverged == "" && !r.Pruned {
		r.Diverged = e.abort
	}
}

// quiescence analysis, called by the loop's caller before teardown
//
//go:norace
func (e *exec) analyse() {
	r := e.res
	if e.panicMsg != "" || e.failMsg != "" || e.abort != "" || r.HorizonHit || r.Pruned {
		return
	}
	if !e.mainDone || e.userCnt > 0 {
		var sb strings.Builder
		for _, t := range e.threads {
			if !t.done {
				fmt.Fprintf(&sb, "T%d(%s) blocked in %s %s @%s; ", t.id, t.name, t.mail.kind, t.mail.tag, t.mail.where)
			}
		}
		r.Deadlock = "no thread enabled and no timer pending: " + sb.String()
		return
	}
	if !e.o.LeakOracle {
		return
	}
	for _, t := range e.threads {
		if !t.done && t.lib && !(t.mail.kind == OpTimerWait && t.timer != nil && t.timer.state == tmStopped) {
			if t.mail.kind == OpTimerWait {
				continue // reported as a timer below
			}
			r.Leaks = append(r.Leaks, fmt.Sprintf("goroutine started by the library still blocked in %s %s @%s", t.mail.kind, t.mail.tag, t.mail.where))
		}
	}
	for _, tm := range e.timers {
		if tm.state == tmPending && tm.lib && tm.when > e.now {
			r.Leaks = append(r.Leaks, fmt.Sprintf("library timer still pending, due in %v @%s", time.Duration(tm.when-e.now), tm.where))
		}
	}
}

// ---- thread side ----

//go:norace
func where(skip int) string {
	if ex == nil || !ex.o.Verbose && !ex.o.LeakOracle {
		return ""
	}
	for i := skip; i < skip+8; i++ {
		_, file, line, ok := runtime.Caller(i)
		if !ok {
			break
		}
		if strings.Contains(file, "/verifrt/") || strings.Contains(file, "/rt/v") {
			continue
		}
		if j := strings.LastIndex(file, "/"); j >= 0 {
			if k := strings.LastIndex(file[:j], "/"); k >= 0 {
				file = file[k+1:]
			}
		}
		return file + ":" + strconv.Itoa(line)
	}
	return ""
}

// gate publishes the pending operation and yields to the scheduler. It returns the scheduler's
// selection (select case / choose value) once the operation may proceed.
//
//go:norace
func gate(kind OpKind, obj unsafe.Pointer, ch any, cases []Case, hasDef bool, n int, tag string) int {
	e := ex
	if e == nil {
		if kind == OpSelect {
			panic("vrt: select outside Execute")
		}
		return 0
	}
	t := e.cur
	if t.exiting {
		if kind == OpRecv || kind == OpSend || kind == OpSelect || kind == OpLock || kind == OpRLock || kind == OpWGWait || kind == OpCondWait {
			runtime.Goexit()
		}
		return 0
	}
	m := &t.mail
	m.kind, m.obj, m.ch, m.cases, m.hasDef, m.n, m.tag = kind, obj, ch, cases, hasDef, n, tag
	if e.o.Verbose || e.o.LeakOracle {
		m.where = where(3)
	}
	m.slot = false
	if e.solo(t) {
		return m.sel
	}
	signalSched()
	waitBaton(t)
	if t.poison {
		t.exiting = true
		runtime.Goexit()
	}
	return m.sel
}

//go:norace
func addNote(n note) {
	e := ex
	if e == nil || e.cur == nil {
		return
	}
	e.cur.mail.notes = append(e.cur.mail.notes, n)
}

// Point is an always-enabled scheduling point.
func Point(tag string) { gate(OpPoint, nil, nil, nil, false, 0, tag) }

// PointObj is an always-enabled scheduling point on a known object (conflicts only with other
// operations on the same object).
func PointObj(tag string, obj unsafe.Pointer) { gate(OpPoint, obj, nil, nil, false, 0, tag) }

// LockPoint blocks (in the scheduler's sense) until the lock identified by obj is free.
func LockPoint(obj unsafe.Pointer)   { gate(OpLock, obj, nil, nil, false, 0, "") }
func RLockPoint(obj unsafe.Pointer)  { gate(OpRLock, obj, nil, nil, false, 0, "") }
func UnlockNote(obj unsafe.Pointer)  { addNote(note{kind: noteUnlock, obj: obj}) }
func RUnlockNote(obj unsafe.Pointer) { addNote(note{kind: noteRUnlock, obj: obj}) }
func RecvPoint(ch any)               { gate(OpRecv, nil, ch, nil, false, 0, "") }
func SendPoint(ch any)               { gate(OpSend, nil, ch, nil, false, 0, "") }
func WGWaitPoint(obj unsafe.Pointer) { gate(OpWGWait, obj, nil, nil, false, 0, "") }
func CondWaitPoint(obj unsafe.Pointer, ticket int) {
	gate(OpCondWait, obj, nil, nil, false, ticket, "")
}

// ExitingWithoutLock reports whether the calling thread is being torn down (its deferred calls run
// after the execution was abandoned) and does not hold the write lock obj: code that unlocks and
// re-locks around a callback, with the unlock deferred by its caller, is torn down between the two,
// and the deferred unlock must then not reach the real mutex ("unlock of unlocked mutex" is fatal).
//
//go:norace
func ExitingWithoutLock(obj unsafe.Pointer) bool {
	e := ex
	if e == nil || e.cur == nil || !e.cur.exiting {
		return false
	}
	// (the thread's own list, not the lock table: the runtime's map functions report to the race
	// detector whatever the caller's pragma says)
	held := false
	for _, o := range e.cur.held {
		if o == obj {
			held = true
		}
	}
	for _, n := range e.cur.mail.notes {
		if n.kind == noteUnlock && n.obj == obj {
			held = false
		}
	}
	return !held
}

// TryLockPoint is a scheduling point that reports whether the lock is free, and takes it if so.
//
//go:norace
func TryLockPoint(obj unsafe.Pointer) bool {
	gate(OpPoint, obj, nil, nil, false, 0, "trylock")
	e := ex
	if e == nil {
		return true
	}
	st := e.locks[obj]
	if st == nil {
		st = &lockSt{}
		e.locks[obj] = st
	}
	if st.writer != nil || st.readers > 0 {
		return false
	}
	st.writer = e.cur
	e.cur.addHeld(obj)
	return true
}

// Select returns the index of the case to perform (guaranteed not to block), or -1 for default.
func Select(hasDefault bool, cases ...Case) int {
	return gate(OpSelect, nil, nil, cases, hasDefault, 0, "")
}

// Choose is an enumerated data choice in [0,n).
func Choose(n int, tag string) int {
	if n <= 1 {
		return 0
	}
	return gate(OpChoose, nil, nil, nil, false, n, tag)
}

func Recv[T any](c <-chan T) T {
	RecvPoint(c)
	return SelRecv(c)
}

func Recv2[T any](c <-chan T) (T, bool) {
	RecvPoint(c)
	return SelRecv2(c)
}

func Send[T any](c chan<- T, v T) {
	SendPoint(c)
	SelSend(c, v)
}

// SelRecv / SelRecv2 / SelSend perform the channel operation the scheduler has just allowed:
// the real operation (guaranteed not to block), or, for an unbuffered channel, the transfer
// through the rendezvous slot.
func SelRecv[T any](c <-chan T) T {
	if slotMode() {
		v, _ := takeSlot(chanKey(c)).(T)
		return v
	}
	return <-c
}

func SelRecv2[T any](c <-chan T) (T, bool) {
	if slotMode() {
		v, _ := takeSlot(chanKey(c)).(T)
		return v, true
	}
	v, ok := <-c
	return v, ok
}

func SelSend[T any](c chan<- T, v T) {
	if slotMode() {
		putSlot(chanKey(c), v)
		return
	}
	c <- v
}

var slotMu sync.Mutex
var slots = map[uintptr][]any{}

//go:norace
func slotMode() bool {
	if ex == nil || ex.cur == nil {
		return false
	}
	m := ex.cur.mail.slot
	ex.cur.mail.slot = false
	return m
}

func putSlot(k uintptr, v any) {
	slotMu.Lock()
	slots[k] = append(slots[k], v)
	slotMu.Unlock()
}

func takeSlot(k uintptr) any {
	slotMu.Lock()
	defer slotMu.Unlock()
	q := slots[k]
	if len(q) == 0 {
		panic("vrt: rendezvous slot empty")
	}
	v := q[0]
	if len(q) == 1 {
		delete(slots, k)
	} else {
		slots[k] = q[1:]
	}
	return v
}

func Close[T any](c chan<- T) {
	gate(OpPoint, nil, c, nil, false, 0, "close")
	close(c)
}

// Elem returns v typed as the element type of c (used to hoist select send values).
func Elem[T any](c chan<- T, v T) T { return v }

type errer interface{ Err() error }

// CtxErr is ctx.Err() preceded by a scheduling point.
func CtxErr(c errer) error {
	Point("ctx.Err")
	return c.Err()
}

// Go starts fn as a library thread.
func Go(fn func()) { spawn("lib", true, fn) }

// GoH starts fn as a harness thread.
func GoH(name string, fn func()) { spawn(name, false, fn) }

//go:norace
func spawn(name string, lib bool, fn func()) *thread {
	e := ex
	if e == nil {
		go fn()
		return nil
	}
	t := e.newThread(name, lib)
	t.creator = -1
	if e.cur != nil {
		t.creator = e.cur.id
	}
	t.spawnSeq = e.spawned
	e.spawned++
	t.mail.kind = OpStart
	if e.o.Verbose || e.o.LeakOracle {
		t.mail.where = where(3)
	}
	addNote(note{kind: noteThread, t: t})
	go threadMain(t, fn)
	return t
}

// ---- time ----

//go:norace
func Now() int64 {
	if ex == nil {
		return DefaultEpoch
	}
	return ex.now
}

// Elapsed returns virtual nanoseconds since the execution's epoch.
//
//go:norace
func Elapsed() int64 {
	if ex == nil {
		return 0
	}
	return ex.now - ex.o.Epoch
}

//go:norace
func NewTimer(d int64, lib bool) *Timer {
	tm := &Timer{C: make(chan time.Time, 1), lib: lib}
	e := ex
	if e == nil {
		panic("vrt: timer outside Execute")
	}
	tm.when = e.now + max(d, 0)
	if e.o.Verbose || e.o.LeakOracle {
		tm.where = where(3)
	}
	addNote(note{kind: noteTimer, tm: tm})
	return tm
}

//go:norace
func AfterFunc(d int64, lib bool, fn func()) *Timer {
	e := ex
	if e == nil {
		panic("vrt: timer outside Execute")
	}
	tm := &Timer{lib: lib, when: e.now + max(d, 0)}
	if e.o.Verbose || e.o.LeakOracle {
		tm.where = where(3)
	}
	t := e.newThread("afterfunc", lib)
	t.mail.kind = OpTimerWait
	t.mail.where = tm.where
	t.timer = tm
	tm.cb = t
	addNote(note{kind: noteThread, t: t})
	addNote(note{kind: noteTimer, tm: tm})
	go threadMain(t, fn)
	return tm
}

// Stop is a scheduling point; it reports whether the timer was stopped before firing.
//
//go:norace
func (tm *Timer) Stop() bool {
	PointObj("timer.Stop", unsafe.Pointer(tm))
	if tm.state == tmPending {
		tm.state = tmStopped
		return true
	}
	return false
}

// Reset re-arms a channel timer (AfterFunc timers: unsupported).
//
//go:norace
func (tm *Timer) Reset(d int64) bool {
	PointObj("timer.Reset", unsafe.Pointer(tm))
	was := tm.state == tmPending
	if tm.cb != nil {
		unsupported("Reset on an AfterFunc timer")
		return was
	}
	if was {
		tm.when = ex.now + max(d, 0)
		return true
	}
	tm.state = tmPending
	tm.when = ex.now + max(d, 0)
	addNote(note{kind: noteTimer, tm: tm})
	return false
}

// StopQuiet stops the timer without a scheduling point.
//
//go:norace
func (tm *Timer) StopQuiet() {
	if tm.state == tmPending {
		tm.state = tmStopped
	}
}

//go:norace
func NewTicker(d int64, lib bool) *Timer {
	tm := NewTimer(d, lib)
	tm.period = d
	return tm
}

//go:norace
func (tm *Timer) ResetTicker(d int64) {
	Point("ticker.Reset")
	tm.period = d
	tm.when = ex.now + d
	if tm.state != tmPending {
		tm.state = tmPending
		addNote(note{kind: noteTimer, tm: tm})
	}
}

// DrawIndex returns the number of random draws made so far in this execution and increments it.
//
//go:norace
func DrawIndex() int {
	if ex == nil {
		return 1 << 30
	}
	ex.draws++
	return ex.draws - 1
}

// Sleep blocks the calling thread for d virtual nanoseconds (harness-origin timer).
func Sleep(d int64) {
	if d <= 0 {
		return
	}
	tm := NewTimer(d, false)
	RecvPoint(tm.C)
	<-tm.C
}

// ---- observation ----

//go:norace
func Mark(s string) {
	if ex != nil {
		ex.log = append(ex.log, s)
	}
}

func Markf(format string, a ...any) { Mark(fmt.Sprintf(format, a...)) }

// Cat concatenates its arguments without going through fmt (whose sync.Pool would add
// happens-before edges between threads in the race build).
func Cat(a ...any) string {
	s := ""
	for i, x := range a {
		if i > 0 {
			s += " "
		}
		switch v := x.(type) {
		case string:
			s += v
		case int:
			s += strconv.Itoa(v)
		case int64:
			s += strconv.FormatInt(v, 10)
		case uint:
			s += strconv.FormatUint(uint64(v), 10)
		case bool:
			s += strconv.FormatBool(v)
		case time.Duration:
			s += strconv.FormatInt(int64(v), 10) + "ns"
		case nil:
			s += "<nil>"
		case error:
			s += v.Error()
		default:
			s += "?"
		}
	}
	return s
}

// M records an observation built with Cat.
func M(a ...any) { Mark(Cat(a...)) }

//go:norace
func Fail(msg string) {
	if ex != nil && ex.failMsg == "" {
		ex.failMsg = msg
	}
}

// FailLater records a failure without stopping the execution: it runs on to quiescence, so that the
// deadlock and leak analyses still happen, and is reported (Result.LateFail) if they find nothing.
func FailLater(msg string) {
	if ex != nil && ex.lateFail == "" {
		ex.lateFail = msg
	}
}

func Failf(format string, a ...any) { Fail(fmt.Sprintf(format, a...)) }

// EnterUser / ExitUser bracket an invocation of user code (function, listener, fallback): the
// leak oracle freezes time only once main has finished and no user code is in progress.
//
//go:norace
func EnterUser() {
	if ex != nil && ex.cur != nil {
		ex.userCnt++
		ex.cur.user++
	}
}

//go:norace
func ExitUser() {
	if ex != nil && ex.cur != nil && ex.cur.user > 0 {
		ex.userCnt--
		ex.cur.user--
	}
}

// ThreadID returns the id of the running thread (-1 outside Execute).
//
// ThreadCreator returns the id of the thread that spawned thread id (-1 if unknown). Ids are
// assigned in creation order.
//
//go:norace
//go:norace
func ThreadCreator(id int) int {
	if ex == nil || id < 0 || id >= len(ex.threads) {
		return -1
	}
	return ex.threads[id].creator
}

// SpawnCount returns how many threads have been spawned so far in this execution; ThreadSpawnSeq the
// position of thread id in that order. A thread was spawned inside a stretch of code exactly when its
// position lies between the counts read at the stretch's entry and exit.
//
//go:norace
func SpawnCount() int {
	if ex == nil {
		return 0
	}
	return ex.spawned
}

//go:norace
func ThreadSpawnSeq(id int) int {
	if ex == nil || id < 0 || id >= len(ex.threads) {
		return -1
	}
	return ex.threads[id].spawnSeq
}

func ThreadID() int {
	if ex == nil || ex.cur == nil {
		return -1
	}
	return ex.cur.id
}

// ---- WaitGroup / Cond support (state lives in the shim, read here without instrumentation) ----

type WGState struct{ N int }

//go:norace
func wgReady(obj unsafe.Pointer) bool { return (*WGState)(obj).N <= 0 }

//go:norace
func WGAdd(s *WGState, d int) int { s.N += d; return s.N }

type CondState struct {
	Gen     int // broadcasts so far
	Signals int // unconsumed signals
	Tickets int
}

//go:norace
func condReady(obj unsafe.Pointer, ticket int) bool {
	c := (*CondState)(obj)
	return c.Gen > ticket>>20 || c.Signals > 0
}

//go:norace
func condConsume(obj unsafe.Pointer, ticket int) {
	c := (*CondState)(obj)
	if c.Gen > ticket>>20 {
		return
	}
	if c.Signals > 0 {
		c.Signals--
	}
}

//go:norace
func CondTicket(c *CondState) int { return c.Gen << 20 }

//go:norace
func CondSignal(c *CondState, all bool) {
	if all {
		c.Gen++
	} else {
		c.Signals++
	}
}

// ---- watchdog ----

var wdOnce atomic.Bool

func startWatchdog() {
	if !wdOnce.CompareAndSwap(false, true) {
		return
	}
	go func() {
		last := progress.Load()
		idle := 0
		for {
			time.Sleep(2 * time.Second)
			cur := progress.Load()
			if cur == last && Active() {
				idle++
			} else {
				idle = 0
			}
			last = cur
			if idle >= 15 {
				fmt.Fprintln(os.Stderr, "vrt: watchdog: no scheduler progress for 30s; a thread is blocked in an uninstrumented operation")
				buf := make([]byte, 1<<20)
				n := runtime.Stack(buf, true)
				os.Stderr.Write(buf[:n])
				os.Exit(3)
			}
		}
	}()
}
