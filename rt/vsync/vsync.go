// Package vsync mirrors the parts of package sync whose operations must be scheduling points.
// The real primitive is still used after the gate, so that the happens-before edges the library
// relies on are real for the race detector.
package vsync

import (
	"sync"
	"unsafe"

	"github.com/failsafe-go/failsafe-go/verifrt/vrt"
)

type Locker = sync.Locker

type Mutex struct {
	mu sync.Mutex
}

func (m *Mutex) Lock() {
	vrt.LockPoint(unsafe.Pointer(m))
	m.mu.Lock()
}

func (m *Mutex) TryLock() bool {
	if !vrt.TryLockPoint(unsafe.Pointer(m)) {
		return false
	}
	if !vrt.Active() {
		return m.mu.TryLock()
	}
	m.mu.Lock()
	return true
}

func (m *Mutex) Unlock() {
	if vrt.ExitingWithoutLock(unsafe.Pointer(m)) {
		return
	}
	m.mu.Unlock()
	vrt.UnlockNote(unsafe.Pointer(m))
}

type RWMutex struct {
	mu sync.RWMutex
}

func (m *RWMutex) Lock() {
	vrt.LockPoint(unsafe.Pointer(m))
	m.mu.Lock()
}

func (m *RWMutex) Unlock() {
	if vrt.ExitingWithoutLock(unsafe.Pointer(m)) {
		return
	}
	m.mu.Unlock()
	vrt.UnlockNote(unsafe.Pointer(m))
}

func (m *RWMutex) RLock() {
	vrt.RLockPoint(unsafe.Pointer(m))
	m.mu.RLock()
}

func (m *RWMutex) RUnlock() {
	m.mu.RUnlock()
	vrt.RUnlockNote(unsafe.Pointer(m))
}

func (m *RWMutex) RLocker() Locker { return (*rlocker)(m) }

type rlocker RWMutex

func (r *rlocker) Lock()   { (*RWMutex)(r).RLock() }
func (r *rlocker) Unlock() { (*RWMutex)(r).RUnlock() }

type WaitGroup struct {
	st vrt.WGState
	mu sync.Mutex // real edges: Done happens-before Wait returning
}

func (wg *WaitGroup) Add(delta int) {
	vrt.PointObj("wg.Add", unsafe.Pointer(&wg.st))
	wg.mu.Lock()
	n := vrt.WGAdd(&wg.st, delta)
	wg.mu.Unlock()
	if n < 0 {
		panic("sync: negative WaitGroup counter")
	}
}

func (wg *WaitGroup) Done() { wg.Add(-1) }

func (wg *WaitGroup) Wait() {
	vrt.WGWaitPoint(unsafe.Pointer(&wg.st))
	wg.mu.Lock()
	wg.mu.Unlock()
}

func (wg *WaitGroup) Go(f func()) {
	wg.Add(1)
	vrt.Go(func() {
		defer wg.Done()
		f()
	})
}

type Once struct {
	m    Mutex
	done bool
}

func (o *Once) Do(f func()) {
	o.m.Lock()
	defer o.m.Unlock()
	if !o.done {
		defer func() { o.done = true }()
		f()
	}
}

func OnceFunc(f func()) func() {
	var o Once
	return func() { o.Do(f) }
}

func OnceValue[T any](f func() T) func() T {
	var o Once
	var v T
	return func() T { o.Do(func() { v = f() }); return v }
}

func OnceValues[T1, T2 any](f func() (T1, T2)) func() (T1, T2) {
	var o Once
	var v1 T1
	var v2 T2
	return func() (T1, T2) { o.Do(func() { v1, v2 = f() }); return v1, v2 }
}

type Cond struct {
	L  Locker
	st vrt.CondState
	mu sync.Mutex
}

func NewCond(l Locker) *Cond { return &Cond{L: l} }

func (c *Cond) Wait() {
	ticket := vrt.CondTicket(&c.st)
	c.L.Unlock()
	vrt.CondWaitPoint(unsafe.Pointer(&c.st), ticket)
	c.mu.Lock()
	c.mu.Unlock()
	c.L.Lock()
}

func (c *Cond) Signal() {
	vrt.PointObj("cond.Signal", unsafe.Pointer(&c.st))
	c.mu.Lock()
	vrt.CondSignal(&c.st, false)
	c.mu.Unlock()
}

func (c *Cond) Broadcast() {
	vrt.PointObj("cond.Broadcast", unsafe.Pointer(&c.st))
	c.mu.Lock()
	vrt.CondSignal(&c.st, true)
	c.mu.Unlock()
}

// Pool and Map are passed through: they never block for long when one goroutine runs at a time.
// Pool stands in for sync.Pool. The real pool is process-wide state that survives from one explored
// execution into the next (and its per-P caches make Get nondeterministic); this one is emptied at the
// start of every execution and hands back the most recently Put item, the answer that lets a
// recycled object's stale state reach the next user.
type Pool struct {
	New   func() any
	mu    sync.Mutex
	gen   uint64
	items []any
}

func (p *Pool) Get() any {
	vrt.PointObj("pool.Get", unsafe.Pointer(p))
	p.mu.Lock()
	if g := vrt.ExecGen(); p.gen != g {
		p.gen, p.items = g, nil
	}
	var x any
	if n := len(p.items); n > 0 {
		x, p.items = p.items[n-1], p.items[:n-1]
	}
	p.mu.Unlock()
	if x == nil && p.New != nil {
		x = p.New()
	}
	return x
}

func (p *Pool) Put(x any) {
	if x == nil {
		return
	}
	vrt.PointObj("pool.Put", unsafe.Pointer(p))
	p.mu.Lock()
	if g := vrt.ExecGen(); p.gen != g {
		p.gen, p.items = g, nil
	}
	p.items = append(p.items, x)
	p.mu.Unlock()
}

type Map = sync.Map
