// Package vcontext provides the context constructors whose cancel functions must be scheduling
// points, and deadline contexts driven by the virtual clock.
package vcontext

import (
	"context"
	"sync"
	"time"

	"github.com/failsafe-go/failsafe-go/verifrt/vrt"
	"github.com/failsafe-go/failsafe-go/verifrt/vsync"
)

func WithCancel(parent context.Context) (context.Context, context.CancelFunc) {
	ctx, cancel := context.WithCancel(parent)
	return ctx, func() {
		vrt.Point("cancel")
		cancel()
	}
}

func WithCancelCause(parent context.Context) (context.Context, context.CancelCauseFunc) {
	ctx, cancel := context.WithCancelCause(parent)
	return ctx, func(cause error) {
		vrt.Point("cancel")
		cancel(cause)
	}
}

func Cause(c context.Context) error {
	vrt.Point("ctx.Cause")
	return context.Cause(c)
}

func WithoutCancel(parent context.Context) context.Context { return context.WithoutCancel(parent) }

// deadlineCtx is a context with a virtual-time deadline. It implements AfterFunc, which makes
// the standard library cancel children synchronously (no helper goroutine) with this context's
// Err(), i.e. DeadlineExceeded.
type deadlineCtx struct {
	parent   context.Context
	deadline time.Time
	mu       sync.Mutex
	done     chan struct{}
	err      error
	cause    error
	after    map[int]func()
	nextID   int
	timer    *vrt.Timer
}

func (c *deadlineCtx) Deadline() (time.Time, bool) { return c.deadline, true }
func (c *deadlineCtx) Done() <-chan struct{}       { return c.done }
func (c *deadlineCtx) Err() error {
	c.mu.Lock()
	defer c.mu.Unlock()
	return c.err
}
func (c *deadlineCtx) Value(key any) any { return c.parent.Value(key) }

func (c *deadlineCtx) AfterFunc(f func()) (stop func() bool) {
	c.mu.Lock()
	if c.err != nil {
		c.mu.Unlock()
		f()
		return func() bool { return false }
	}
	id := c.nextID
	c.nextID++
	c.after[id] = f
	c.mu.Unlock()
	return func() bool {
		c.mu.Lock()
		defer c.mu.Unlock()
		_, ok := c.after[id]
		delete(c.after, id)
		return ok
	}
}

func (c *deadlineCtx) cancel(err, cause error) {
	c.mu.Lock()
	if c.err != nil {
		c.mu.Unlock()
		return
	}
	c.err = err
	c.cause = cause
	close(c.done)
	fs := make([]func(), 0, len(c.after))
	for id := 0; id < c.nextID; id++ {
		if f, ok := c.after[id]; ok {
			fs = append(fs, f)
		}
	}
	c.after = map[int]func(){}
	c.mu.Unlock()
	for _, f := range fs {
		f()
	}
}

func WithDeadline(parent context.Context, d time.Time) (context.Context, context.CancelFunc) {
	return WithDeadlineCause(parent, d, nil)
}

func WithDeadlineCause(parent context.Context, d time.Time, cause error) (context.Context, context.CancelFunc) {
	if cur, ok := parent.Deadline(); ok && cur.Before(d) {
		return WithCancel(parent)
	}
	c := &deadlineCtx{parent: parent, deadline: d, done: make(chan struct{}), after: map[int]func(){}}
	if parent.Done() != nil {
		// follow the parent through a watcher thread, as the standard library does for foreign contexts
		vrt.Go(func() {
			switch vrt.Select(false, vrt.R(parent.Done()), vrt.R(c.done)) {
			case 0:
				c.cancel(parent.Err(), context.Cause(parent))
			}
		})
	}
	dur := int64(d.Sub(time.Unix(0, vrt.Now())))
	if dur <= 0 {
		c.cancel(context.DeadlineExceeded, cause)
		return c, func() {}
	}
	c.timer = vrt.AfterFunc(dur, false, func() { c.cancel(context.DeadlineExceeded, cause) })
	return c, func() {
		vrt.Point("cancel")
		c.cancel(context.Canceled, nil)
		if c.timer != nil {
			c.timer.StopQuiet()
		}
	}
}

func WithTimeout(parent context.Context, timeout time.Duration) (context.Context, context.CancelFunc) {
	return WithDeadline(parent, time.Unix(0, vrt.Now()).Add(timeout))
}

func WithTimeoutCause(parent context.Context, timeout time.Duration, cause error) (context.Context, context.CancelFunc) {
	return WithDeadlineCause(parent, time.Unix(0, vrt.Now()).Add(timeout), cause)
}

// AfterFunc runs f as a library thread once ctx is done (the standard library uses a goroutine too).
// No scheduling point is ever reached while a real lock is held.
func AfterFunc(ctx context.Context, f func()) (stop func() bool) {
	stopped := make(chan struct{})
	var mu vsync.Mutex
	state := 0 // 0 pending, 1 running/ran, 2 stopped
	vrt.Go(func() {
		switch vrt.Select(false, vrt.R(ctx.Done()), vrt.R(stopped)) {
		case 0:
			mu.Lock()
			run := state == 0
			if run {
				state = 1
			}
			mu.Unlock()
			if run {
				f()
			}
		}
	})
	return func() bool {
		mu.Lock()
		did := state == 0
		if did {
			state = 2
		}
		mu.Unlock()
		if did {
			vrt.Close(stopped)
		}
		return did
	}
}
