// Package vrand replaces the package-level draws of math/rand by enumerated choices.
package vrand

import "github.com/failsafe-go/failsafe-go/verifrt/vrt"

// Menu is the finite set of values a Float64/Float32 draw may take. The formulas the library
// feeds draws into are monotone in the draw, so the extremes bound every possible draw.
var Menu = []float64{0, 0.5, 1 - 1.0/(1<<53)}

// MaxEnumerated draws are enumerated per execution; later draws cycle through the menu.
var MaxEnumerated = 5

func draw() float64 {
	k := vrt.DrawIndex()
	if k < MaxEnumerated {
		return Menu[vrt.Choose(len(Menu), "rand")]
	}
	return Menu[k%len(Menu)]
}

func Float64() float64 { return draw() }

func Float32() float32 {
	f := float32(draw())
	if f >= 1 {
		f = 1 - 1.0/(1<<24)
	}
	return f
}

func pick(n int64) int64 {
	if n <= 0 {
		panic("invalid argument to rand")
	}
	f := draw()
	v := int64(f * float64(n))
	if v >= n {
		v = n - 1
	}
	return v
}

func Intn(n int) int                     { return int(pick(int64(n))) }
func Int63n(n int64) int64               { return pick(n) }
func Int31n(n int32) int32               { return int32(pick(int64(n))) }
func Int63() int64                       { return pick(1 << 62) }
func Int31() int32                       { return int32(pick(1 << 30)) }
func Int() int                           { return int(pick(1 << 62)) }
func Uint32() uint32                     { return uint32(pick(1 << 32)) }
func Uint64() uint64                     { return uint64(pick(1 << 62)) }
func ExpFloat64() float64                { return draw() }
func NormFloat64() float64               { return draw() - 0.5 }
func Seed(int64)                         {}
func Shuffle(n int, swap func(i, j int)) {}
func Perm(n int) []int {
	p := make([]int, n)
	for i := range p {
		p[i] = i
	}
	return p
}
